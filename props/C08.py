"""C08 - Comparisons on a field the record lacks are false and never raise."""
import datetime as _d
import io
import itertools
import operator
import os
import shutil

from hypothesis import strategies as st

from vlib.observe import diff, observe
from vlib.runner import Part, Violation, impl

LEVEL = "exploration"
RULE = (
    "Exhaustive table: operator in {== != < <= > >= in 'not in'} x missing operand left/right x other operand "
    "(int, float, str, bytes, None, True, list and tuple literal, a present field of each of 12 types, a second "
    "missing field, list/tuple containing a missing field) x boolean context (bare, not X, X and T, T and X, X or F, "
    "F or X, not (X or F)) x {Selector, CompiledSelector}; expected value = context(False), no exception. Helper "
    "functions with field lists that include missing names must equal the result with those names removed. "
    "Generated heterogeneous streams (2-4 descriptors, some lacking the field) filtered through "
    "RecordStreamReader(selector=), RecordReader(path, selector=), record_stream([...]) and rdump -s (both engines): "
    "output must be exactly the records that have the field and satisfy the condition under plain Python, later "
    "sources still read. Non-trivial = table row whose missing operand is really absent (all rows) / stream case "
    "with >=1 record lacking the field and >=1 record kept."
)
ASSUMPTIONS = [
    "'is'/'is not' and arithmetic on a missing field are outside the statement's list and not enumerated",
    "for 'in'/'not in' with the missing field on the left the other operand is a container or a string",
]

GEN = _d.datetime(2021, 5, 6, 7, 8, 9, 10, tzinfo=_d.timezone.utc)

FIELDS = [
    ("string", "s", "hello"),
    ("varint", "num", 1),
    ("float", "fl", 1.5),
    ("boolean", "flag", True),
    ("datetime", "dt", GEN),
    ("bytes", "raw", b"abc"),
    ("path", "p", "/tmp/x"),
    ("net.ipaddress", "ip", "10.0.0.1"),
    ("net.ipnetwork", "netw", "10.0.0.0/8"),
    ("stringlist", "sl", ["a", "b"]),
    ("digest", "dg", ("d41d8cd98f00b204e9800998ecf8427e", None, None)),
    ("command", "cmd", "/bin/ls -l"),
    ("uri", "u", "http://example.com/x"),
    ("string[]", "tl", ["x", "y"]),
    ("net.ipv4.Address", "ip4", "1.2.3.4"),
    ("uint16", "u16", 7),
    ("filesize", "fs", 1024),
    ("wstring", "ws", "wide"),
    ("dynamic", "dyn", "dyn"),
    ("net.tcp.Port", "port", 80),
    ("unix_file_mode", "mode", 0o644),
    ("record", "rec", "<nested>"),
    ("string", "empty", ""),
]

OPS = ["==", "!=", "<", "<=", ">", ">=", "in", "not in"]
LITERALS = [("int", "5"), ("float", "1.5"), ("str", "'x'"), ("bytes", "b'x'"), ("None", "None"), ("True", "True"),
            ("list", "[1, 'x']"), ("tuple", "(1, 'x')")]
CONTAINER_KINDS = {"ctor:net.ipv4.Subnet", "ctor:net.ipnetwork", "field:net.ipnetwork", "str", "list", "tuple", "field:string", "field:stringlist", "field:string[]", "field:uri",
                   "list-with-missing", "tuple-with-missing"}
CONTEXTS = [
    ("bare", "{X}", lambda x: x),
    ("not", "not ({X})", lambda x: not x),
    ("X-and-T", "({X}) and r.num == 1", lambda x: x and True),
    ("T-and-X", "r.num == 1 and ({X})", lambda x: True and x),
    ("X-or-F", "({X}) or r.num == 2", lambda x: x or False),
    ("F-or-X", "r.num == 2 or ({X})", lambda x: False or x),
    ("not-or", "not (({X}) or r.num == 2)", lambda x: not (x or False)),
]


def others():
    out = list(LITERALS)
    for t, n, _ in FIELDS:
        out.append(("field:" + t, "r." + n))
    out.append(("ctor:net.ipv4.Subnet", "net.ipv4.Subnet('10.0.0.0/8')"))
    out.append(("ctor:net.ipnetwork", "net.ipnetwork('10.0.0.0/8')"))
    out.append(("ctor:net.ipaddress", "net.ipaddress('10.0.0.1')"))
    out.append(("missing", "r.nope2"))
    out.append(("list-with-missing", "[r.nope2]"))
    out.append(("tuple-with-missing", "(r.nope2, 1)"))
    out.append(("same-missing", "r.nope"))
    out.append(("list-with-same-missing", "[r.nope]"))
    return out


def table_cases(tier):
    cases = []
    for op in OPS:
        for side in ("left", "right"):
            for kind, src in others():
                if op in ("in", "not in") and side == "left" and kind not in CONTAINER_KINDS | {
                    "missing", "same-missing", "list-with-same-missing"}:
                    continue
                if kind == "same-missing" and side == "right":
                    continue
                # the missing field bare, and passed through the case helpers (which hand a missing field through)
                for form, m in (("bare", "r.nope"), ("lower", "lower(r.nope)"), ("upper", "upper(r.nope)"),
                                ("attr", "r.nope.name"), ("attr2", "r.nope.val.year")):
                    x = ("%s %s %s" % (m, op, src)) if side == "left" else ("%s %s %s" % (src, op, m))
                    for cname, ctpl, _ in CONTEXTS:
                        if form != "bare" and cname not in ("bare", "not", "X-or-F"):
                            continue
                        for engine in ("interpreted", "compiled"):
                            cases.append({"op": op, "side": side, "other": kind, "ctx": cname, "engine": engine,
                                          "form": form, "expr": ctpl.format(X=x)})
    return cases


_REC = None


def the_record():
    global _REC
    if _REC is None:
        from flow.record import RecordDescriptor

        d = RecordDescriptor("c08/rec", [(t, n) for t, n, _ in FIELDS])
        inner = RecordDescriptor("c08/inner", [("string", "a")])("in", _generated=GEN)
        _REC = d(*[inner if v == "<nested>" else v for _, _, v in FIELDS], _generated=GEN, _source="hello-src")
    return _REC


def make(engine, expr):
    from flow.record.selector import CompiledSelector, Selector

    return Selector(expr) if engine == "interpreted" else CompiledSelector(expr)


def check_row(case, ctx):
    rec = the_record()
    expected = [f for n, _, f in CONTEXTS if n == case["ctx"]][0](False)
    ctx.nontriv()
    ctx.cls("op:" + case["op"], "engine:" + case["engine"], "ctx:" + case["ctx"], "side:" + case["side"],
            "missing-operand:" + case.get("form", "bare"))
    sel = impl(make, case["engine"], case["expr"])
    if not sel.ok:
        raise Violation(row_sig(case, "compile-raised:" + sel.type), "%s: %r" % (case["expr"], sel))
    res = impl(sel.value.match, rec)
    if not res.ok:
        raise Violation(row_sig(case, "raised:" + res.type), "%s raised %r" % (case["expr"], res))
    if bool(res.value) != expected:
        raise Violation(row_sig(case, "comparison-true"),
                        "%s evaluated to %r, expected %r (comparison with a missing field must be false)"
                        % (case["expr"], res.value, expected))


STRINGLIKE = {"str", "field:string", "field:uri", "field:wstring"}


def row_sig(case, outcome):
    """One signature per root cause (see DESIGN 5): the compiled engine cannot intercept Python's
    membership operators, so those rows are grouped; everything else is operator/side/operand specific."""
    e, op, side, other = case["engine"], case["op"], case["side"], case["other"]
    if e == "compiled" and op == "not in" and outcome == "comparison-true":
        return "compiled/notin/comparison-true"
    if e == "compiled" and op in ("in", "not in") and outcome == "raised:TypeError" and side == "left" and (
            other in STRINGLIKE):
        return "compiled/membership/missing-left-in-string/raised:TypeError"
    if e == "compiled" and op == "in" and outcome == "comparison-true" and "missing" in other:
        return "compiled/in/both-missing/comparison-true"
    # the value's type decides, not whether it came from a field or from a constructor call
    return "%s/%s/missing-%s/%s/%s" % (e, op.replace(" ", ""), side, other.replace("ctor:", "field:"), outcome)


# ---------------------------------------------------------------------------------------------
# helper functions skip missing fields

HELPER_CALLS = [
    ("field_contains", "field_contains(r, {F}, ['ell'])"),
    ("field_contains", "field_contains(r, {F}, ['ELL'], nocase=False)"),
    ("field_contains", "field_contains(r, {F}, ['zzz'])"),
    ("field_contains", "field_contains(r, {F}, ['hello'], word_boundary=True)"),
    ("field_equals", "field_equals(r, {F}, ['hello'])"),
    ("field_equals", "field_equals(r, {F}, ['HELLO'], nocase=False)"),
    ("field_equals", "field_equals(r, {F}, ['nomatch'])"),
    ("field_regex", "field_regex(r, {F}, 'h.l+o')"),
    ("field_regex", "field_regex(r, {F}, '^\\s*$')"),
    ("field_regex", "field_regex(r, {F}, '^$')"),
    ("field_equals", "field_equals(r, {F}, [''])"),
    ("field_contains", "field_contains(r, {F}, [''], word_boundary=True)"),
    ("field_regex", "field_regex(r, {F}, '^zzz$')"),
]
PRESENT = ["s", "u", "_source", "empty"]  # ('empty' holds the zero-length string: a value, not a missing field)
MISSING = ["nope", "nope2"]


def helper_cases(tier):
    cases = []
    for name, tpl in HELPER_CALLS:
        for npres in range(0, 3):
            for pres in itertools.combinations(PRESENT, npres):
                for nmiss in range(1, 3):
                    for miss in itertools.combinations(MISSING, nmiss):
                        for order in range(2):
                            with_missing = list(pres) + list(miss) if order == 0 else list(miss) + list(pres)
                            for engine in ("interpreted", "compiled"):
                                cases.append({"helper": name, "with": tpl.format(F=repr(with_missing)),
                                              "without": tpl.format(F=repr(list(pres))), "engine": engine})
    for engine in ("interpreted", "compiled"):
        for expr, without in [
            ("has_field(r, 'nope')", "False"),
            ("has_field(r, 's')", "True"),
            ("'x' in Type.dictlist", "False"),  # no field of that type at all
            ("Type.dictlist == 5", "False"),
            ("Type.dictlist != 5", "False"),
            ("Type.dictlist < 5", "False"),
            ("Type.dictlist >= 5", "False"),
            ("Type.nosuchtype == 5", "False"),
            ("Type.nosuchtype <= 5", "False"),
        ]:
            cases.append({"helper": "misc", "with": expr, "without": without, "engine": engine})
    return cases


def check_helper(case, ctx):
    rec = the_record()
    ctx.nontriv()
    ctx.cls("helper:" + case["helper"], "engine:" + case["engine"])
    from vlib import selgen

    a = impl(lambda: make(case["engine"], case["with"]).match(rec))
    b = impl(lambda: make(case["engine"], case["without"]).match(rec))
    if not b.ok:
        # the call WITHOUT any missing name raised: not a matter of missing fields (C07 judges the helpers themselves)
        ctx.cls("undefined:call-without-missing-names-raised")
        return
    base = "%s/helper/%s" % (case["engine"], case["helper"])
    if case["helper"] != "misc":
        # absolute expectation from /verif's own helper implementations (written from the docstrings)
        ref = impl(selgen.reference_eval, case["with"], rec)
        if ref.ok and a.ok and bool(ref.value) != bool(a.value):
            raise Violation(base + "/differs-from-reference", "%s -> %r, reference helper gives %r"
                            % (case["with"], a.value, ref.value))
    if not a.ok:
        raise Violation(base + "/raised:" + a.type, "%s raised %r" % (case["with"], a))
    if bool(a.value) != bool(b.value):
        raise Violation(base + "/differs", "%s -> %r but without the missing names -> %r"
                        % (case["with"], a.value, b.value))
    if case["helper"] != "misc":
        # the same call over the NEXT GENERATION of the record type (same name; the names missing above are fields now,
        # and hold the text looked for), then over the first generation again: which names a record has is a matter of
        # that record, whatever records of that name looked like before
        for which, r2 in (("newer-generation", the_record_gen2()), ("older-generation-again", rec)):
            got = impl(lambda: make(case["engine"], case["with"]).match(r2))
            ref = impl(selgen.reference_eval, case["with"], r2)
            if not got.ok:
                raise Violation(base + "/generations/raised:" + got.type, "%s over the %s raised %r" % (case["with"], which, got))
            if ref.ok and bool(ref.value) != bool(got.value):
                raise Violation(base + "/generations/differs-from-reference", "%s over the %s -> %r, reference helper gives %r"
                                % (case["with"], which, got.value, ref.value))


_REC2 = None


def the_record_gen2():
    global _REC2
    if _REC2 is None:
        from flow.record import RecordDescriptor

        d = RecordDescriptor("c08/rec", [(t, n) for t, n, _ in FIELDS] + [("string", m) for m in MISSING])
        inner = RecordDescriptor("c08/inner", [("string", "a")])("in", _generated=GEN)
        _REC2 = d(*([inner if v == "<nested>" else ("other" if t == "string" else v) for t, _, v in FIELDS] + ["hello"] * len(MISSING)),
                  _generated=GEN, _source="src2")
    return _REC2


# ---------------------------------------------------------------------------------------------
# heterogeneous streams through the readers and rdump

PYOPS = {"==": operator.eq, "!=": operator.ne, "<": operator.lt, "<=": operator.le, ">": operator.gt,
         ">=": operator.ge}


@st.composite
def stream_case(draw):
    ndesc = draw(st.integers(2, 4))
    descs = []
    same_names = draw(st.booleans())  # two generations of one record type: same name, different field sets
    for i in range(ndesc):
        has = draw(st.booleans()) if i > 0 else True
        descs.append({"name": "c08/t%d" % (i % 2 if same_names else i), "has": has})
    if all(d["has"] for d in descs):
        descs[-1]["has"] = False
    nfiles = draw(st.integers(1, 3))
    files = []
    for _ in range(nfiles):
        n = draw(st.integers(0, 6))
        files.append([(draw(st.integers(0, ndesc - 1)), draw(st.integers(0, 6))) for _ in range(n)])
    op = draw(st.sampled_from(list(PYOPS) + ["in", "not in"]))
    lit = draw(st.integers(0, 6))
    via = draw(st.sampled_from(["stream-reader", "record-reader", "record_stream", "rdump"]))
    engine = draw(st.sampled_from(["interpreted", "compiled"]))
    # records that HAVE the field but with no value (None): present, and judged by the condition like any value
    nones = draw(st.lists(st.integers(0, 17), max_size=4, unique=True)) if op in ("==", "!=", "in", "not in") else []
    # records that carry the field as a member of a GROUPED record: they have the field like any other
    grouped = draw(st.lists(st.integers(0, 17), max_size=3, unique=True))
    return {"descs": descs, "files": files, "op": op, "lit": lit, "via": via, "engine": engine, "nones": nones,
            "grouped": grouped}


def check_stream(case, ctx):
    from flow.record import RecordDescriptor, RecordReader, RecordStreamReader, RecordWriter, record_stream
    from flow.record.tools import rdump

    descs = []
    for d in case["descs"]:
        fields = [("string", "tag")] + ([("varint", "f")] if d["has"] else [("varint", "g")])
        descs.append(RecordDescriptor(d["name"], fields))
    op, lit = case["op"], case["lit"]
    if op in ("in", "not in"):
        expr = "r.f %s [%d, %d]" % (op, lit, lit + 1)

        def keep(v):
            return (v in (lit, lit + 1)) == (op == "in")
    else:
        expr = "r.f %s %d" % (op, lit)

        def keep(v):
            return PYOPS[op](v, lit)

    tmp = ctx.fresh_dir()
    try:
        paths = []
        expected = []
        lacking = 0
        k = 0
        for fi, recs in enumerate(case["files"]):
            p = os.path.join(tmp, "f%d.records" % fi)
            w = RecordWriter(p)
            for di, v in recs:
                if k in case.get("nones", ()) and case["descs"][di]["has"]:
                    v = None
                    ctx.cls("field-present-but-None")
                r = descs[di]("n%d" % k, v, _generated=GEN)
                if k in case.get("grouped", ()):
                    from flow.record import GroupedRecord

                    extra = RecordDescriptor("c08/extra", [("string", "e")])("x", _generated=GEN)
                    r = GroupedRecord("c08/grp", [extra, r] if k % 2 else [r, extra])
                    ctx.cls("field-in-grouped-record")
                k += 1
                w.write(r)
                if case["descs"][di]["has"]:
                    if keep(v):
                        expected.append(observe(r))
                else:
                    lacking += 1
            w.flush()
            w.close()
            paths.append(p)
        ctx.cls("via:" + case["via"], "engine:" + case["engine"], "op:" + op)
        if len({d["name"] for d in case["descs"]}) < len(case["descs"]):
            ctx.cls("same-name-different-fields")
        if lacking and expected:
            ctx.nontriv()
        sel = make(case["engine"], expr)
        via = case["via"]
        base = "stream/%s/%s/%s" % (via, case["engine"], op.replace(" ", ""))

        def run():
            out = []
            if via == "stream-reader":
                for p in paths:
                    with open(p, "rb") as f:
                        out.extend(RecordStreamReader(io.BytesIO(f.read()), selector=sel))
            elif via == "record-reader":
                for p in paths:
                    rd = RecordReader(p, selector=sel)
                    out.extend(rd)
                    rd.close()
            elif via == "record_stream":
                out.extend(record_stream(paths, sel))
            else:
                outp = os.path.join(tmp, "out.records")
                argv = paths + ["-s", expr, "-w", outp] + (["-n"] if case["engine"] == "interpreted" else [])
                rdump.main(argv)
                rd = RecordReader(outp)
                out.extend(rd)
                rd.close()
            return out

        res = impl(run)
        if not res.ok:
            raise Violation(base + "/raised:" + res.type, "%s over mixed stream raised %r" % (expr, res))
        got = [observe(r) for r in res.value]
        if got != expected:
            what = "dropped" if len(got) < len(expected) else "extra" if len(got) > len(expected) else "different"
            if what == "extra" and case["engine"] == "compiled" and op == "not in":
                # same root cause as the table rows: Python negates __contains__ of the sentinel
                raise Violation("compiled/notin/comparison-true", "%s over a mixed stream (%s) kept %d records, "
                                "expected %d" % (expr, via, len(got), len(expected)))
            raise Violation(base + "/" + what, "%s: expected %d records, got %d; first diff %s"
                            % (expr, len(expected), len(got), diff(tuple(expected), tuple(got))))
    finally:
        shutil.rmtree(tmp, ignore_errors=True)


def parts(tier):
    return [
        Part("table", check_row, cases=table_cases, exhaustive=True),
        Part("helpers", check_helper, cases=helper_cases, exhaustive=True),
        Part("streams", check_stream, strategy=stream_case(), examples=(150, 12000)),
    ]
