"""C09 - The interpreted selector is a sandbox."""
import datetime as _d
import itertools

from hypothesis import strategies as st

from vlib.observe import observe
from vlib.runner import Part, Violation, impl

LEVEL = "exploration"
RULE = (
    "Enumerated grammar of hostile shapes: call target in {non-whitelisted name, attribute chain rooted at r / at a "
    "call result / at a constant / at a parenthesised operator expression / at a subscript / at a generator "
    "variable, generator variable named like a whitelisted function or type, call of a call, lambda} x method name in "
    "{every whitelisted helper and type leaf name, ordinary names} x dunder attribute at every depth x embedding "
    "context {bare, BoolOp, Compare, BinOp, list/tuple element, argument / keyword argument of a whitelisted call, "
    "generator element, generator iterable, generator condition, nested generator}; Hypothesis nests contexts up to "
    "3 levels. Records hold canary objects in record-typed fields (every non-dunder attribute is a logging "
    "callable). Oracle: (1) canary call log and tripwires stay empty, (2) the expression must raise, (3) nothing is "
    "invoked before the refusal, (4) observe(record) unchanged. Benign whitelisted calls in the same contexts must be "
    "accepted. Non-trivial = every hostile case; distinct by source."
    " Also: callables handed to every helper / constructor as an argument (must not be invoked), double-underscore names computed at run time or spelled with syntax the language does not have (subscripts, conditionals, f-strings, comprehensions), after a per-process warm-up that calls every whitelisted name legitimately."
)
ASSUMPTIONS = [
    "a call is legitimate iff its target is a name / dotted name that, in the namespace the matcher starts with, is "
    "a helper (FUNCTION_WHITELIST, str repr any all fields) or a whitelisted field-type path",
    "'no accepted hostile shape exists' is bounded by the shape grammar below",
]

GEN = _d.datetime(2023, 3, 4, 5, 6, 7, 8, tzinfo=_d.timezone.utc)
LOG = []
TRIPWIRE = []


class CanaryCall:
    def __init__(self, path):
        self._path = path

    def __call__(self, *a, **k):
        LOG.append(("call", self._path))
        TRIPWIRE.append(self._path)
        return Canary(self._path + "()")

    def __getattr__(self, attr):
        if attr.startswith("__"):
            raise AttributeError(attr)
        return CanaryCall(self._path + "." + attr)

    def __repr__(self):
        return "<canary-callable %s>" % self._path

    def __iter__(self):
        return iter(())


class Canary:
    """Every non-dunder attribute is a logging callable."""

    def __init__(self, path="c"):
        self._path = path

    def __getattr__(self, attr):
        if attr.startswith("__"):
            raise AttributeError(attr)
        return CanaryCall(self._path + "." + attr)

    def __repr__(self):
        return "<canary %s>" % self._path

    def __iter__(self):
        return iter(())


_REC = None


def the_record():
    global _REC
    if _REC is None:
        from flow.record import RecordDescriptor

        d = RecordDescriptor("c09/rec", [("string", "s"), ("varint", "n"), ("stringlist", "sl"), ("record", "c"),
                                         ("record[]", "cs"), ("uri", "u"), ("string", "dn")])
        _REC = d("aBc", 3, ["X", "y"], Canary("c"), [Canary("cs0")], "http://h/p", "__class__", _generated=GEN)
    return _REC


def whitelisted_leaf_names():
    from flow.record.selector import FUNCTION_WHITELIST
    from flow.record.whitelist import WHITELIST

    names = [f.__name__ for f in FUNCTION_WHITELIST] + ["str", "repr", "any", "all", "fields"]
    names += sorted({w.split(".")[-1] for w in WHITELIST})
    return names


ORDINARY = ["m", "delete", "startswith", "format", "encode", "_private", "write", "join", "mro", "format_map", "zfill"]


def targets(meth):
    """(shape label, source of a hostile CALL expression) for method name `meth`."""
    return [
        ("attr-chain-at-r/canary", "r.c.%s()" % meth),
        ("attr-chain-at-r/canary-deep", "r.c.a.b.%s()" % meth),
        ("attr-chain-at-r/value", "r.s.%s()" % meth),
        ("attr-chain-at-r/list-elt", "r.cs.%s()" % meth),
        ("call-result", "lower(r.s).%s()" % meth),
        ("call-result", "str(r.c).%s()" % meth),
        ("call-result", "name(r).%s()" % meth),
        ("constant", "'abc'.%s()" % meth),
        ("constant", "(1).%s()" % meth),
        ("operator-expr", "(r.s + 'x').%s()" % meth),
        ("operator-expr", "(r.sl + ['q']).%s()" % meth),
        ("subscript", "r.sl[0].%s()" % meth),
        ("subscript", "[r.c][0].%s()" % meth),
        ("generator-var-call", "any(f() for f in [r.c.%s])" % meth),
        ("generator-var-call", "any(f() for f in [r.s.%s])" % meth),
        ("generator-var-attr", "any(f.%s() for f in [r.c])" % meth),
        ("generator-var-call-after-inner-generator", "any(any(q for q in [1]) and f() for f in [r.c.%s])" % meth),
        ("generator-var-call-after-inner-generator", "any(f() for f in [r.c.%s] if any(q for q in [1]))" % meth),
        ("generator-var-call-after-inner-generator", "any([all(q for q in [1]), f()] for f in [r.c.%s])" % meth),
        ("generator-var-call-after-inner-generator", "any(any(f() for q in [1]) for f in [r.c.%s])" % meth),
        ("generator-var-call-after-sibling-generator", "any(q for q in [0]) or any(f() for f in [r.c.%s])" % meth),
        # the variable used in the other parts of the comprehension that binds it (condition, later 'for', nested)
        ("generator-var-call-in-own-condition", "any(True for f in [r.c.%s] if f())" % meth),
        ("generator-var-call-in-own-condition", "any(True for f in [r.c.%s, r.c.%s] if f())" % (meth, meth)),
        ("generator-var-call-in-own-condition", "any(True for f in [r.s.%s] if f() is None)" % meth),
        ("generator-var-call-in-own-condition", "all(True for f in [r.c] if f.%s())" % meth),
        ("generator-var-call-in-own-condition", "any(True for f in [r.c.%s] if True if f())" % meth),
        ("generator-var-call-in-later-for", "any(True for f in [r.c.%s] for g in f())" % meth),
        ("generator-var-call-in-later-for", "any(g for f in [r.c.%s] for g in [f()])" % meth),
        ("generator-var-call-in-later-for", "any(True for f in [r.c.%s] for g in [1] if f())" % meth),
        ("generator-var-call-in-later-for", "any(True for g in [1] for f in [r.c.%s] if f())" % meth),
        ("generator-var-call-in-nested-iterable", "any(any(q for q in f()) for f in [r.c.%s])" % meth),
        ("generator-var-call-in-nested-iterable", "any(any(True for q in [1] if f()) for f in [r.c.%s])" % meth),
        # a call site that is evaluated before AND after a later 'for' binds its name to a callable
        ("generator-var-shadows-call-site-seen-earlier", "any(x == 9 for x in [1, 2] if %s('p') for %s in [r.c.m])" % (meth, meth)),
        ("generator-var-shadows-call-site-seen-earlier", "any(x == 9 for x in [1, 2, 3] for y in [%s('p')] for %s in [r.c.m])" % (meth, meth)),
        ("generator-var-shadows-call-site-seen-earlier", "all(x == 9 or %s('p') for x in [1, 2] for %s in [r.c.m, r.sl.append])" % (meth, meth)),
        # loop targets that unpack: every name bound by the target is a loop variable
        ("generator-var-from-unpacking-target", "any(f() for f, x in [(r.c.%s, 1)])" % meth),
        ("generator-var-from-unpacking-target", "any(x for f, x in [(r.c.%s, 1)] if f())" % meth),
        ("generator-var-from-unpacking-target", "any(f() for (x, f) in [(1, r.sl.%s)])" % meth),
        ("generator-var-from-unpacking-target", "any(f() for [f, x] in [[r.c.%s, 1]])" % meth),
        ("generator-var-from-unpacking-target", "any(f() for f, *x in [(r.c.%s, 1, 2)])" % meth),
        ("generator-var-from-unpacking-target", "any(g() for x, (f, g) in [(1, (2, r.c.%s))])" % meth),
        ("generator-var-named-like-whitelisted", "any(%s() for %s in [r.c.m])" % (meth, meth)),
        ("generator-var-named-like-whitelisted", "any(%s(1) for %s in [r.c.m, r.s.upper])" % (meth, meth)),
        ("call-of-call", "r.c.%s()()" % meth),
        ("call-of-call", "lower(r.c.%s)()" % meth),
        ("lambda", "(lambda: r.c.%s())()" % meth),
        ("lambda", "(lambda q: q.%s())(r.c)" % meth),
        ("type-matcher", "Type.record.%s()" % meth),
        # one call target per remaining ast expression kind that can stand left of '.%s()'
        ("root:BoolOp", "(r.c or r.c).%s()" % meth),
        ("root:BoolOp", "(r.s and r.c).%s()" % meth),
        ("root:UnaryOp", "(not r.c).%s()" % meth),
        ("root:Compare", "(r.n == 3).%s()" % meth),
        ("root:IfExp", "(r.c if r.n else r.c).%s()" % meth),
        ("root:List", "[r.c, 1].%s()" % meth),
        ("root:Tuple", "(r.c, 1).%s()" % meth),
        ("root:Dict", "{'k': r.c}.%s()" % meth),
        ("root:Set", "{1, 2}.%s()" % meth),
        ("root:ListComp", "[q for q in [r.c]].%s()" % meth),
        ("root:GeneratorExp", "(q for q in [r.c]).%s()" % meth),
        ("root:JoinedStr", "f'{r.s}'.%s()" % meth),
        ("root:NamedExpr", "(q := r.c).%s()" % meth),
        ("root:Starred-arg", "lower(*[r.c.%s()])" % meth),
        ("root:kwargs-arg", "lower(**{'s': r.c.%s()})" % meth),
        ("root:Slice", "r.sl[r.c.%s():]" % meth),
        ("root:FormattedValue", "f'{r.c.%s()}' == 'x'" % meth),
        ("root:decorated-name", "(lower)(r.c).%s()" % meth),
        ("attr-of-whitelisted-callable", "str.%s(r.s)" % meth),
        ("attr-of-whitelisted-callable", "repr.%s(r.c)" % meth),
        ("attr-of-whitelisted-callable", "lower.%s(r.s)" % meth),
        ("attr-of-whitelisted-callable", "any.%s([r.c])" % meth),
        ("attr-of-whitelisted-callable", "fields.%s('string')" % meth),
        ("attr-of-whitelisted-callable", "name.%s(r)" % meth),
        ("attr-of-whitelisted-type", "net.ipaddress.%s('1.1.1.1')" % meth),
        ("attr-of-whitelisted-type", "string.%s('x')" % meth),
        ("attr-of-whitelisted-type", "net.%s('x')" % meth),
        ("attr-of-namespace-object", "Type.%s(r.c)" % meth),
        ("attr-of-namespace-object", "r.%s()" % meth),
        ("keyword-arg-target", "r.c.%s(x=1)" % meth),
        # call targets spelled with syntax the language does not have today (subscripts, conditional expressions,
        # comprehensions other than generators, walrus): if a release starts to evaluate them, the call gate applies
        ("target:Subscript", "r.c['%s']()" % meth),
        ("target:Subscript", "[r.c.%s][0]()" % meth),
        ("target:Subscript", "{'k': r.c.%s}['k']()" % meth),
        ("target:Subscript", "r.cs[0].%s()" % meth),
        ("target:IfExp", "(r.c.%s if True else r.c.%s)()" % (meth, meth)),
        ("target:BoolOp", "(r.c.%s or r.c.%s)()" % (meth, meth)),
        ("target:NamedExpr", "(q := r.c.%s)()" % meth),
        ("comprehension-var-call", "[f() for f in [r.c.%s]] == []" % meth),
        ("comprehension-var-call", "{f() for f in [r.c.%s]} == 1" % meth),
        ("comprehension-var-call", "{1: f() for f in [r.c.%s]} == 1" % meth),
        ("comprehension-var-call", "any([f() for f in [r.c.%s]])" % meth),
        ("comprehension-var-call", "any([%s() for %s in [r.c.m]])" % (meth, meth)),
        ("comprehension-var-call", "any(f() for f in [q for q in [r.c.%s]])" % meth),
        ("conditional-call", "(r.c.%s() if True else 1) == 1" % meth),
        ("conditional-call", "(1 if r.c.%s() else 2) == 1" % meth),
    ]


NAME_CALLS = [
    "str.format('{0.__class__.__init__.__globals__}', r)", "str.format_map('{c}', r)", "str.join('', [r.s])",
    "str.mro()", "str.upper(r.s)", "repr.__call__(r)", "any.__call__([1])", "lower.__call__('A')",
    "open('/tmp/verif-c09-tripwire', 'w')", "eval('1')", "exec('1')", "getattr(r, 's')", "__import__('os')",
    "print(1)", "type(r)", "globals()", "locals()", "compile('1', 'x', 'eval')", "dir(r)", "vars(r)",
    "setattr(r, 's', 'x')", "delattr(r, 's')", "len(r.s)", "int('1')", "list(r.sl)", "iter(r.sl)", "next(r.c)",
    "isinstance(r, str)", "hasattr(r, 's')", "object()", "bytearray(3)", "breakpoint()", "input()", "memoryview(b'')",
    "WrappedRecord(r)", "Selector('1')", "RecordDescriptor('x', [])", "r()", "Type()", "net()", "fields.__call__('x')",
]

FIELD_TYPE_ROOTS = {"boolean", "command", "dynamic", "datetime", "filesize", "uint16", "uint32", "float", "string", "stringlist",
                    "dictlist", "unix_file_mode", "varint", "wstring", "uri", "digest", "bytes", "record", "path", "net"}


def _builtin_name_calls():
    """Every public builtin as a call target (with a canary callable as key= / first argument where that is how the
    builtin would call back), except the four the statement allows and the interactive ones."""
    import builtins

    skip = {"str", "repr", "any", "all", "exit", "quit", "input", "breakpoint", "help", "copyright", "credits", "license", "open",
            "print", "exec", "eval", "compile", "__import__"}
    out = []
    for n in sorted(dir(builtins)):
        if n.startswith("_") or n in skip or not callable(getattr(builtins, n)) or n[0].isupper():
            continue
        if n in FIELD_TYPE_ROOTS:
            continue  # float(..), bytes(..) in a selector are the whitelisted field-type constructors, not the builtins
        out += ["%s(1)" % n, "%s([1], key=r.c.m)" % n, "%s(r.c.m, [1])" % n]
    return out


NAME_CALLS += _builtin_name_calls()
# a loop variable called like the field-type namespace, called through a dotted whitelisted path
NAME_CALLS += ["any(net.ipaddress('1.1.1.1') for net in [r.c])", "any(net.ipv4.Address('1.1.1.1') for net in [r.c, r.c])",
               "any(net.tcp.Port(1) for net in [r.c])", "any(net.ipnetwork('10.0.0.0/8') == 1 for net in [r.c])",
               "any(True for net in [r.c] if net.ipaddress('1.1.1.1'))", "any(string.lower() for string in [r.c])",
               "any(net.ipv4.Subnet('10.0.0.0/8') for x in [1] for net in [r.c])"]

DUNDERS = [
    "r.__class__", "r.c.__dict__", "r.s.__class__.__mro__", "Type.__class__", "lower.__globals__",
    "r._desc.__init__", "name.__code__", "r.c.a.__class__", "str(r).__class__", "(r.s + 'x').__class__",
    "[r.c][0].__class__", "r.__slots__", "r.sl.__len__", "net.__dict__", "string.__call__", "r.c.__call__",
    "any.__self__", "r.u.__init__.__globals__", "lower(r.s).__class__", "'a'.__class__", "r.__setattr__",
    "r.__class__.__bases__", "fields.__self__", "r.c.m.__globals__",
    # every double-underscore attribute, not only the __dunder__ form
    "r.__secret", "r.c.__private", "r.c.a.__x", "r.s.__len", "Type.__foo", "r.__slots", "r.c.__dict", "r.__x_",
    "str(r).__x", "r.c.__", "r.c.___",
    # the same reads spelled without an Attribute node, or with the name computed at run time (r.dn holds the text
    # '__class__'): if the language ever grows subscripts, conditionals, f-strings or other comprehensions, a
    # double-underscore name still must not be readable through them
    "r['__class__']", "r['__cla' + 'ss__']", "r[r.dn]", "r[lower('__CLASS__')]", "r[str('__dict__')]",
    "any(r[k] != None for k in ['__class__'])", "any(r[k] for k in [r.dn])", "r.c['__class__']", "r.c[r.dn]",
    "r.s['__class__']", "r['_desc']['__init__']", "str(r[r.dn])", "lower(r['__class__'])", "r.sl[r.__class__:]",
    "(r.__class__ if True else 1)", "(1 if r.__class__ else 2)", "(1 if True else r.__class__)",
    "f'{r.__class__}'", "f'{r.c.__dict__}'", "f'{r.s:{r.__class__}}'", "f'{r.dn.__len__}'",
    "[x.__class__ for x in [r]]", "[x for x in [r.__class__]]", "{x.__class__ for x in [r]}", "{1: x.__class__ for x in [r]}",
    "{'a': r.__class__}", "{r.__class__}", "[*r.__class__]", "(y := r.__class__)", "(lambda: r.__class__)",
    "(lambda q: q.__class__)", "[r.__class__][0]", "any([x.__class__ for x in [r]])",
]

CONTEXTS = [
    ("bare", "{X}"),
    ("boolop-left", "({X}) and True"),
    ("boolop-right", "True and ({X})"),
    ("boolop-or", "False or ({X})"),
    ("not", "not ({X})"),
    ("compare-left", "({X}) == 1"),
    ("compare-right", "1 == ({X})"),
    ("compare-in", "({X}) in [1, 2]"),
    ("binop", "(({X}) + 1) == 2"),
    ("binop-right", "(1 * ({X})) == 2"),
    ("list-elt", "[1, ({X})] == [1]"),
    ("tuple-elt", "(({X}), 1) == (1, 1)"),
    ("call-arg", "lower({X}) == 'a'"),
    ("call-arg-str", "str({X}) == 'a'"),
    ("call-arg-nested", "field_contains(r, ['s'], [{X}])"),
    ("call-kwarg", "field_contains(r, ['s'], ['a'], nocase=({X}))"),
    ("ctor-arg", "net.ipaddress({X}) == '1.1.1.1'"),
    ("gen-element", "any(({X}) for v in [1])"),
    ("gen-iterable", "any(v for v in [({X})])"),
    ("gen-condition", "any(True for v in [1] if ({X}))"),
    ("gen-nested", "any(any(({X}) for w in [1]) for v in [1])"),
    ("gen-second-for", "any(({X}) for v in [1] for w in [2])"),
    ("attr-of", "({X}).foo == 1"),
]

BENIGN = [
    "lower(r.s)", "upper(r.s)", "name(r)", "str(r.n)", "repr(r.s)", "has_field(r, 's')", "net.ipaddress('1.1.1.1')",
    "string('x')", "any(q == 1 for q in [1])", "all(q for q in [1])", "field_contains(r, ['s'], ['a'])",
    "names(r)", "get_type(r.s)", "field_equals(r, ['s'], ['abc'])", "field_regex(r, ['s'], 'a')", "fields('string')",
    "uri('http://x/')", "net.ipnetwork('10.0.0.0/8')",
    # whitelisted helpers given the record's own (mixed-case) containers and values as every argument: allowed, and
    # the record must look the same afterwards
    "field_contains(r, ['s'], r.sl)", "field_contains(r, r.sl, ['a'])", "field_contains(r, r.sl, r.sl)",
    "field_contains(r, ['sl'], r.sl)", "field_contains(r, ['s', 'u'], r.sl, word_boundary=True)",
    "field_equals(r, ['s'], r.sl)", "field_equals(r, r.sl, r.sl)", "field_equals(r, ['sl', 's'], r.sl, nocase=True)",
    "field_regex(r, r.sl, 'a')", "field_regex(r, ['s'], r.s)", "lower(r.sl)", "upper(r.sl)", "lower(r.s)", "upper(r.u)",
    "str(r.sl)", "repr(r.sl)", "any(q for q in r.sl)", "all(lower(q) == 'x' for q in r.sl)", "r.sl + ['q']", "r.sl * 2",
    "names(r)", "name(r)", "get_type(r.sl)", "has_field(r, 'sl')", "r.sl[0]", "r.sl[::-1]", "'X' in r.sl",
    "any(field_contains(r, ['s'], [q]) for q in r.sl)", "string(r.s)", "uri(r.u)", "stringlist(r.sl)",
]


def hostile_cases(tier):
    cases = []
    wl = whitelisted_leaf_names()
    meths = [(m, "wl-name") for m in wl] + [(m, "plain-name") for m in ORDINARY]
    ctxs = CONTEXTS if tier == "thorough" else CONTEXTS
    for (m, mclass) in meths:
        for shape, src in targets(m):
            for k, (cname, ctpl) in enumerate(ctxs):
                # quick tier: every (shape, method) in 6 rotating contexts; thorough: all contexts
                if tier != "thorough" and (hash((m, shape)) + k) % 4 != 0 and cname != "bare":
                    continue
                cases.append({"kind": "call", "shape": shape, "mclass": mclass, "ctx": cname,
                              "src": ctpl.format(X=src)})
    for src in NAME_CALLS:
        for cname, ctpl in CONTEXTS:
            cases.append({"kind": "call", "shape": "non-whitelisted-name", "mclass": "name", "ctx": cname,
                          "src": ctpl.format(X=src)})
    for src in DUNDERS:
        for cname, ctpl in CONTEXTS:
            cases.append({"kind": "dunder", "shape": "dunder-attribute", "mclass": "dunder", "ctx": cname,
                          "src": ctpl.format(X=src)})
    return cases


READ_METHODS = ["pop", "clear", "sort", "reverse", "append", "copy", "upper", "strip", "as_posix", "keys", "m", "delete",
                "poke", "close", "flush", "_pack", "_asdict", "isoformat"]


def read_cases(tier):
    """Expressions without any call syntax: attribute READS are allowed, but a read must stay a read - nothing is
    invoked on the record's values (whatever the attribute is called) and the record is the same afterwards."""
    cases = []
    for m in READ_METHODS + ORDINARY[:4]:
        for shape, src in [
            ("type-matcher-attr", "Type.record.%s == 1" % m),
            ("type-matcher-attr", "Type.record.a.%s == 1" % m),
            ("type-matcher-attr", "Type.string.%s == 'ABC'" % m),
            ("type-matcher-attr", "Type.stringlist.%s == 'y'" % m),
            ("type-matcher-attr", "Type.stringlist.%s != None" % m),
            ("type-matcher-attr", "'y' in Type.stringlist.%s" % m),
            ("type-matcher-attr", "Type.uri.%s == 'x'" % m),
            ("type-matcher-attr", "Type.varint.%s > 1" % m),
            ("field-attr", "r.c.%s == 1" % m),
            ("field-attr", "r.sl.%s == 1" % m),
            ("field-attr", "r.s.%s != 1" % m),
            ("field-attr", "r.cs.%s == 1" % m),
            ("field-attr", "any(q.%s == 1 for q in [r.c, r.sl, r.s])" % m),
            ("field-attr", "str(r.sl.%s) == 'x'" % m),
            ("field-attr", "lower(r.c.%s) == 'x'" % m),
            ("field-attr", "field_equals(r, ['s'], [r.sl.%s])" % m),
            # a callable HANDED to a whitelisted helper (every helper, every argument position): the helper may refuse
            # or ignore it, but must not call it
            ("callable-as-argument", "fields(r.c.%s)" % m),
            ("callable-as-argument", "fields(r.sl.%s)" % m),
            ("callable-as-argument", "any(fields(r.cs.%s))" % m),
            ("callable-as-argument", "name(r.c.%s) == 'x'" % m),
            ("callable-as-argument", "names(r.c.%s) == ['x']" % m),
            ("callable-as-argument", "get_type(r.c.%s) == 'x'" % m),
            ("callable-as-argument", "has_field(r, r.c.%s)" % m),
            ("callable-as-argument", "has_field(r.c.%s, 's')" % m),
            ("callable-as-argument", "field_regex(r, ['s'], r.c.%s)" % m),
            ("callable-as-argument", "field_regex(r, r.c.%s, 'a')" % m),
            ("callable-as-argument", "field_contains(r, ['s'], r.c.%s)" % m),
            ("callable-as-argument", "field_contains(r, r.sl.%s, ['a'])" % m),
            ("callable-as-argument", "field_contains(r, ['s'], ['a'], word_boundary=r.c.%s)" % m),
            ("callable-as-argument", "field_equals(r, r.c.%s, ['a'])" % m),
            ("callable-as-argument", "field_equals(r, ['s'], ['a'], nocase=r.c.%s)" % m),
            ("callable-as-argument", "upper(r.c.%s) == 'x'" % m),
            ("callable-as-argument", "any([r.c.%s])" % m),
            ("callable-as-argument", "all([r.c.%s, r.sl.%s])" % (m, m)),
            ("callable-as-argument", "string(r.c.%s) == 'x'" % m),
            ("callable-as-argument", "varint(r.c.%s) == 1" % m),
            ("callable-as-argument", "stringlist(r.c.%s) == []" % m),
            ("callable-as-argument", "net.ipaddress(r.c.%s) == '1.1.1.1'" % m),
            ("callable-as-argument", "uri(r.sl.%s) == 'x'" % m),
            ("callable-as-argument", "path(r.c.%s) == 'x'" % m),
            ("callable-as-argument", "digest(r.c.%s) == 'x'" % m),
            ("callable-as-argument", "datetime(r.c.%s) == 'x'" % m),
            ("callable-as-argument", "bytes(r.c.%s) == 'x'" % m),
            ("callable-as-argument", "boolean(r.c.%s) == 1" % m),
            ("callable-as-argument", "Type.string == r.c.%s" % m),
            ("callable-as-argument", "r.c.%s in Type.stringlist" % m),
        ]:
            for cname, ctpl in CONTEXTS:
                if cname not in ("bare", "not", "boolop-right", "gen-condition", "call-arg-str"):
                    continue
                cases.append({"kind": "read", "shape": shape, "mclass": "read", "ctx": cname, "src": ctpl.format(X=src)})
    return cases


def benign_cases(tier):
    return [{"kind": "benign", "shape": "benign", "mclass": "benign", "ctx": c, "src": t.format(X=b)}
            for b in BENIGN for c, t in CONTEXTS if c not in ("attr-of", "ctor-arg")]


_WARM = [False]


def warm_up():
    """Once per process: every whitelisted helper and constructor is called LEGITIMATELY first, so that whatever the
    library remembers about a name it has admitted (per process, per class) is in place before the hostile shapes."""
    if _WARM[0]:
        return
    _WARM[0] = True
    from flow.record.selector import Selector

    rec = the_record()
    srcs = list(BENIGN) + ["%s('1')" % w for w in ("string", "wstring", "uri", "path", "bytes", "varint", "float", "boolean",
                                                   "stringlist", "digest", "datetime")]
    srcs += ["net.ipaddress('1.1.1.1') == '1.1.1.1'", "net.ipnetwork('1.0.0.0/8') == 1", "lower('A') == upper('a')",
             "any(lower(q) for q in r.sl)", "all(string(q) for q in r.sl)", "str(1) == repr(1)", "fields('string')"]
    for src in srcs:
        impl(lambda: Selector(src).match(rec))
    del LOG[:]
    del TRIPWIRE[:]


def check_case(case, ctx):
    from flow.record.selector import Selector

    warm_up()
    rec = the_record()
    before = observe(rec)
    del LOG[:]
    del TRIPWIRE[:]
    src = case["src"]
    ctx.nontriv()
    ctx.cls("shape:" + case["shape"], "ctx:" + case["ctx"], "kind:" + case["kind"])
    res = impl(lambda: Selector(src).match(rec))
    invoked = list(LOG)
    base = "%s/%s" % (case["kind"], case["shape"])
    detail = case["mclass"]
    if case["kind"] == "benign":
        if not res.ok and res.type in ("InvalidOperation",):
            raise Violation("benign/refused", "whitelisted call refused: %s -> %r" % (src, res), detail=case["ctx"])
        if invoked:
            raise Violation("benign/canary-invoked", "%s (whitelisted calls only) invoked %r" % (src, invoked), detail=case["ctx"])
    elif case["kind"] == "read":
        # the Type matcher walks nested records through the record protocol (rec._desc.getfields(..)); on a canary
        # standing in for a nested record that shows up as a call - it is the library's own traversal, not the expression's
        invoked = [x for x in invoked if "._desc." not in x[1]]
        if invoked:
            raise Violation(base + "/canary-invoked", "%s (no call in the expression) invoked %r (outcome %r)"
                            % (src, invoked, res), detail=detail)
    else:
        if invoked:
            raise Violation(base + "/canary-invoked",
                            "%s invoked %r (outcome %r)" % (src, invoked, res), detail=detail)
        if res.ok:
            raise Violation(base + "/not-refused", "%s was evaluated to %r instead of being refused" % (src, res.value),
                            detail=detail)
    after = observe(rec)
    if before != after:
        raise Violation(base + "/record-modified", "%s changed the record" % src, detail=detail)
    import os

    if os.path.exists("/tmp/verif-c09-tripwire"):
        os.unlink("/tmp/verif-c09-tripwire")
        raise Violation(base + "/tripwire-file", "%s created the tripwire file" % src, detail=detail)


@st.composite
def nested_case(draw):
    wl = whitelisted_leaf_names()
    m = draw(st.sampled_from(wl + ORDINARY))
    kind = draw(st.sampled_from(["call", "call", "call", "name", "dunder"]))
    if kind == "call":
        shape, src = draw(st.sampled_from(targets(m)))
        mclass = "wl-name" if m in wl else "plain-name"
    elif kind == "name":
        shape, src, mclass = "non-whitelisted-name", draw(st.sampled_from(NAME_CALLS)), "name"
        kind = "call"
    else:
        shape, src, mclass = "dunder-attribute", draw(st.sampled_from(DUNDERS)), "dunder"
    depth = draw(st.integers(2, 3))
    names = []
    for i in range(depth):
        cname, ctpl = draw(st.sampled_from(CONTEXTS))
        # keep generator variable names distinct per level
        ctpl = ctpl.replace(" v ", " v%d " % i).replace("(v ", "(v%d " % i).replace(" w ", " w%d " % i)
        src = ctpl.format(X=src)
        names.append(cname)
    return {"kind": kind, "shape": shape, "mclass": mclass, "ctx": "+".join(names), "src": src}


def parts(tier):
    return [
        Part("hostile-shapes", check_case, cases=hostile_cases, exhaustive=True),
        Part("benign-calls", check_case, cases=benign_cases, exhaustive=True),
        Part("attribute-reads", check_case, cases=read_cases, exhaustive=True),
        Part("nested-contexts", check_case, strategy=nested_case(), examples=(300, 30000)),
    ]
