"""C05 - Record fields always hold values of their declared type."""
import datetime as _d
import ipaddress as _ip
import pathlib

from hypothesis import strategies as st

from vlib import gen
from vlib.caseio import M
from vlib.observe import observe
from vlib.runner import Part, Violation, impl

LEVEL = "exploration"
RULE = (
    "Model-based operation sequences (Hypothesis, <=30 steps quick / <=50 thorough) over one record of a generated "
    "descriptor (1-4 fields over all scalar types and T[] forms): construct (positional / keyword), setattr with a "
    "candidate (declared and reserved fields), _replace(**kw), digest component setters, binary pack->unpack. "
    "Candidates per type are classed valid (incl. documented conversions), must-reject (out-of-range uint16/uint32/"
    "port, boolean other than 0/1, malformed digest, address/network strings the stdlib rejects, non-bytes for "
    "bytes) and either (other wrong-kind values). Oracle: valid -> accepted; must-reject -> raises; whenever an "
    "operation raises the deep observation of the whole record is unchanged; after every accepted operation every "
    "slot is None/default or an instance of the declared type (every list element of the element type), naive "
    "timestamps are aware-UTC, bytes given for text are surrogate-escaped, and RecordPacker().pack(record) succeeds. "
    "Non-trivial = history with >=1 rejected operation followed by >=1 accepted one."
)
ASSUMPTIONS = [
    "record and dynamic are documented pass-through / dispatch types and are checked accordingly",
    "wrong-kind candidates the statement does not name (uint16(5.5), digest('x'), boolean(0.5)) may be accepted or "
    "rejected; only the invariants are enforced for them",
]

UTC = _d.timezone.utc
GENTS = _d.datetime(2020, 2, 2, 2, 2, 2, 2, tzinfo=UTC)

INT_TYPES = {"varint", "filesize", "unix_file_mode"}
U16 = {"uint16", "net.tcp.Port", "net.udp.Port"}

SCALARS = [t for t in gen.SCALAR_TYPES]
TYPES = SCALARS + [t + "[]" for t in gen.LISTABLE if t != "record"] + ["record[]"]


def valid_candidates(t):
    if t == "boolean":
        return st.sampled_from([True, False, 0, 1])
    if t in U16:
        return st.one_of(st.sampled_from([0, 1, 65535, 65534]), st.integers(0, 65535))
    if t == "uint32":
        return st.one_of(st.sampled_from([0, 1, 2**32 - 1, 2**31]), st.integers(0, 2**32 - 1))
    if t in INT_TYPES:
        return gen.ints() if t == "varint" else gen.nonneg_ints()
    if t == "float":
        return st.one_of(gen.floats(), st.integers(-5, 5))
    if t in ("string", "wstring"):
        # (bytes that start like an encoding signature are text bytes like any other: nothing is stripped or guessed)
        return st.one_of(gen.text(big=False), st.binary(max_size=10),
                         st.sampled_from([b"\xef\xbb\xbfabc", b"\xef\xbb\xbf", b"\xef\xbb", b"\xff\xfea\x00", b"\xfe\xff\x00a",
                                          b"a\xef\xbb\xbfb", b"\x00abc", b"abc\x00", b"\xc3\xa9", b"\xe2\x80\xa8x", b"+ADw-"]))
    if t == "uri":
        return gen.uris()
    if t == "bytes":
        return gen.binary(big=False)
    if t == "datetime":
        return st.one_of(gen.datetimes(), st.sampled_from(["2023-01-10T16:12:01+00:00", "2023-01-10T16:12:01",
                                                            "2022-12-01T13:00:23.499460Z", "2023-09-01 13:37:12.345678+09:00",
                                                            0, 1, 1700000000, 1700000000.5, -1]),
                         # values that already ARE instances of the field type, made by its own (inherited) constructors
                         # and methods from a possibly naive wall time: every way into a record still gives an aware value
                         st.tuples(st.sampled_from(FTDT_WAYS), gen.datetimes()).map(lambda p: M("ftdt", p)))
    if t == "digest":
        return st.one_of(gen.digests(), gen.digests().map(lambda d: {"md5": d[0], "sha1": d[1], "sha256": d[2]}),
                         gen.digests().map(list))
    if t == "path":
        return gen.paths()
    if t == "command":
        return gen.commands()
    if t in ("net.ipaddress", "net.IPAddress"):
        return st.one_of(gen.ip_strings(), st.integers(0, 2**32 - 1), gen.ip_strings().map(lambda s: M("pyip", s)),
                         st.sampled_from(IP_INTS))
    if t in ("net.ipnetwork", "net.IPNetwork"):
        return st.one_of(gen.ip_networks(), gen.ip_networks(), st.sampled_from(IP_INTS))
    if t == "net.ipv4.Address":
        return gen.ipv4_strings()
    if t == "stringlist":
        return gen.stringlists()
    if t == "dictlist":
        return gen.dictlists()
    if t == "dynamic":
        return gen.dynamics()
    if t == "record":
        return st.one_of(st.none(), gen.record_spec(2, types=["string", "varint"]).map(lambda r: M("rec", r)))
    raise KeyError(t)


# integers that are addresses, and the same numbers as non-integers (equal and equally hashed in Python, but not
# addresses: the ipaddress module refuses them) - an address parser must not confuse the two, whatever it saw before
IP_INTS = [0, 1, 3232235777, 2**32 - 1, 2**32, 2**53]
NOT_IP_NUMBERS = [float(n) for n in IP_INTS] + [M("num", (k, n)) for k in ("decimal", "fraction", "complex") for n in IP_INTS[:4]]


FTDT_WAYS = ["replace-tzinfo", "explicit-tzinfo-arg", "combine", "fromisoformat", "strptime", "utcfromtimestamp"]


def build_ftdt(way, d):
    """An instance of the datetime field type obtained through the class's own API with d's wall time and tzinfo."""
    cls = ftype("datetime")
    if way == "replace-tzinfo":
        return cls(d if d.tzinfo is not None else d.replace(tzinfo=UTC)).replace(tzinfo=d.tzinfo, fold=d.fold)
    if way == "explicit-tzinfo-arg":
        return cls(d.year, d.month, d.day, d.hour, d.minute, d.second, d.microsecond, d.tzinfo, fold=d.fold)
    if way == "combine":
        return cls.combine(d.date(), d.timetz())
    if way == "fromisoformat":
        return cls.fromisoformat(_d.datetime.isoformat(d))
    if way == "strptime":
        return cls.strptime(d.replace(tzinfo=None).strftime("%Y %m %d %H %M %S %f").zfill(26), "%Y %m %d %H %M %S %f")
    return cls.utcfromtimestamp(max(0, min(2**33, int((d.replace(tzinfo=None) - _d.datetime(1970, 1, 1)).total_seconds()))))


def reject_candidates(t):
    """Values the statement names as 'must be rejected'. None if the type has no such class."""
    if t in U16:
        return st.sampled_from([-1, 65536, 2**32, -(2**63), 70000, 65535.5, -0.5, 65535.000001, -0.001])
    if t == "uint32":
        return st.sampled_from([-1, 2**32, 2**32 + 1, 2**64, -5, 4294967295.5, -0.5, -0.001])
    if t == "boolean":
        return st.sampled_from([2, -1, 255, 2**40, 1.5, -0.001, -0.5, 1.000001])
    if t == "digest":
        return st.sampled_from([
            ("zz" * 16, None, None), ("abcd", None, None), (None, "00" * 19, None), (None, None, "0" * 63),
            ("g" * 32, None, None), {"md5": "xyz"}, {"sha1": "00" * 21}, ("00" * 16, "00" * 20, "00" * 31),
            (None, None, "not hex at all"),
            # the right number of hex digits but with whitespace (md5sum output, grouped hex): not a digest
            ("d41d8cd98f00b204e9800998ecf8427e\n", None, None), (" d41d8cd98f00b204e9800998ecf8427e", None, None),
            ("d41d8cd9 8f00b204 e9800998 ecf8427e", None, None), (None, "da39a3ee5e6b4b0d3255bfef95601890afd80709 ", None),
            (None, None, "e3b0c44298fc1c14\t9afbf4c8996fb92427ae41e4649b934ca495991b7852b855"),
            {"md5": "d4 1d 8c d9 8f 00 b2 04 e9 80 09 98 ec f8 42 7e"},
            # every component, in the mapping form too
            {"sha256": "zz" * 32}, {"sha256": "0" * 63}, {"sha256": "0" * 66}, {"sha256": "not hex"}, {"sha1": "abc"},
            {"md5": "00" * 16, "sha256": "g" * 64}, {"sha1": "0" * 39, "sha256": "0" * 64},
        ])
    if t in ("net.ipaddress", "net.IPAddress"):
        return st.sampled_from(["999.1.1.1", "not an ip", "1.2.3", "::g", "", "10.0.0.0/8", "1.2.3.4.5", -1, 2**128]
                               + NOT_IP_NUMBERS)
    if t in ("net.ipnetwork", "net.IPNetwork"):
        return st.sampled_from(["10.0.0.1/8", "x/33", "10.0.0.0/33", "nonsense", "::1/129", "1.2.3.4/-1"] + NOT_IP_NUMBERS)
    if t == "bytes":
        return st.sampled_from(["text", 5, M("list", ["a"]), 1.5, True, M("bytearray", b"abc"), M("bytearray", b""),
                                M("memoryview", b"abc"), M("array", b"ab")])
    return None


def reject_instances(t):
    """Out-of-range values that already are instances of a wider, related field type (copied from another record's
    field): the range of the receiving type still applies."""
    if t in U16:
        return st.sampled_from([M("ftinst", ("uint32", 65536)), M("ftinst", ("uint32", 2**32 - 1)), M("ftinst", ("varint", 70000)),
                                M("ftinst", ("filesize", 65536)), M("ftinst", ("varint", -1)), M("ftinst", ("unix_file_mode", 0o200000))])
    if t == "uint32":
        return st.sampled_from([M("ftinst", ("varint", 2**32)), M("ftinst", ("filesize", 2**33)), M("ftinst", ("varint", -1))])
    if t == "boolean":
        return st.sampled_from([M("ftinst", ("varint", 2)), M("ftinst", ("uint16", 2)), M("ftinst", ("uint32", 255)),
                                M("ftinst", ("varint", -1))])
    return None


def either_candidates(t):
    base = [M("object", None), 5.5, "5", M("list", [1, 2]), -1, "", b"\xff\xfe", M("dict", {"a": 1}), 2**70]
    return st.sampled_from(base)


# field types whose values are also valid input for the key type (same value domain, related classes):
# an existing field value / typed list of the related type is a realistic thing to assign (copying between records)
RELATED = {
    "uri": ["string", "wstring", "uri"], "string": ["uri", "string"], "wstring": ["uri", "string"],
    "filesize": ["varint", "unix_file_mode", "filesize"], "unix_file_mode": ["varint", "filesize"],
    "varint": ["filesize", "unix_file_mode", "uint32", "varint"],
    "net.tcp.Port": ["uint16", "net.udp.Port", "net.tcp.Port"], "net.udp.Port": ["uint16", "net.tcp.Port"],
    "uint16": ["net.tcp.Port", "uint16"], "uint32": ["uint16", "uint32"],
    "net.ipaddress": ["net.IPAddress", "net.ipaddress"], "net.IPAddress": ["net.ipaddress"],
    "net.ipnetwork": ["net.IPNetwork"], "net.IPNetwork": ["net.ipnetwork"],
    "boolean": ["boolean"], "float": ["float"], "bytes": ["bytes"], "datetime": ["datetime"], "digest": ["digest"],
    "path": ["path"], "command": ["command"],
}


def shared_values(t, s_):
    """Values valid for both field types."""
    if {t, s_} <= {"uri", "string", "wstring"}:
        return gen.uris()
    if {t, s_} <= {"filesize", "unix_file_mode", "varint"}:
        return gen.nonneg_ints()
    if {t, s_} <= {"uint16", "net.tcp.Port", "net.udp.Port", "uint32", "varint"}:
        return st.integers(0, 65535)
    return valid_candidates(t).filter(lambda v: v is not None)


def instance_candidates(t):
    """A value that already is an instance of a (related) field type: M('ftinst', (source type, raw value))."""
    srcs = RELATED.get(t)
    if not srcs:
        return None
    return st.sampled_from(srcs).flatmap(lambda s_: shared_values(t, s_).map(lambda v: M("ftinst", (s_, v))))


def candidate(t):
    """(class, value) for field type t (scalar or list form)."""
    if t.endswith("[]"):
        inner = t[:-2]
        good = st.lists(valid_candidates(inner), max_size=3)
        alts = [good.map(lambda v: ("valid", v)), good.map(lambda v: ("valid", M("tuple", v))), st.just(("valid", None)),
                st.just(("valid", []))]
        if inner in RELATED:
            # an existing typed list (possibly of a related element type), e.g. copied from another record's field
            tl = st.sampled_from(RELATED[inner]).flatmap(
                lambda s_: st.lists(shared_values(inner, s_), max_size=3).map(lambda vs: ("valid", M("typedlist", (s_, vs)))))
            alts += [tl, tl]
            inst = instance_candidates(inner)
            alts.append(st.lists(inst, min_size=1, max_size=3).map(lambda v: ("valid", v)))
        rj = reject_candidates(inner)
        if rj is not None:
            alts.append(st.tuples(good, rj).map(lambda p: ("reject", p[0] + [p[1]])))
        if reject_instances(inner) is not None:
            alts.append(st.tuples(good, reject_instances(inner)).map(lambda p: ("reject", p[0] + [p[1]])))
            # ... also as an existing typed list of the wider type
            alts.append(reject_instances(inner).map(lambda m: ("reject", M("typedlist", (m.p[0], [m.p[1]])))))
        if inner != "record":
            alts.append(st.tuples(good, either_candidates(inner)).map(lambda p: ("either", p[0] + [p[1]])))
            alts.append(st.sampled_from([5, "abc", M("object", None)]).map(lambda v: ("either", v)))
        return st.one_of(*alts)
    alts = [valid_candidates(t).map(lambda v: ("valid", v))] * 3 + [st.just(("valid", None))]
    if instance_candidates(t) is not None:
        alts.append(instance_candidates(t).map(lambda v: ("valid", v)))
    if t == "record":
        return st.one_of(*alts)  # documented pass-through type: candidates are records and None
    rj = reject_candidates(t)
    if rj is not None:
        alts += [rj.map(lambda v: ("reject", v))] * 2
    if reject_instances(t) is not None:
        alts.append(reject_instances(t).map(lambda v: ("reject", v)))
    alts.append(either_candidates(t).map(lambda v: ("either", v)))
    return st.one_of(*alts)


RESERVED = [("string", "_source"), ("string", "_classification"), ("datetime", "_generated")]


@st.composite
def case_strategy(draw, max_steps=30):
    n = draw(st.integers(1, 4))
    types = [draw(st.sampled_from(TYPES)) for _ in range(n)]
    names = draw(st.lists(gen.field_name(), min_size=n, max_size=n, unique=True))
    desc = (draw(gen.type_name()), tuple(zip(types, names)))
    slots = list(zip(types, names)) + RESERVED
    ops = []
    nsteps = draw(st.integers(1, max_steps))
    for _ in range(nsteps):
        k = draw(st.sampled_from(["set", "set", "set", "set", "construct", "replace", "digest-set", "roundtrip"]))
        if k == "set":
            i = draw(st.integers(0, len(slots) - 1))
            ops.append(("set", i, draw(candidate(slots[i][0]))))
        elif k == "construct":
            mode = draw(st.sampled_from(["positional", "keyword"]))
            ops.append(("construct", mode, [draw(candidate(t)) for t in types]))
        elif k == "replace":
            idx = draw(st.lists(st.integers(0, len(slots) - 1), min_size=1, max_size=2, unique=True))
            ops.append(("replace", [(i, draw(candidate(slots[i][0]))) for i in idx]))
        elif k == "digest-set":
            dig = [i for i, (t, _) in enumerate(slots) if t == "digest"]
            if not dig:
                continue
            comp = draw(st.sampled_from(["md5", "sha1", "sha256"]))
            ln = {"md5": 32, "sha1": 40, "sha256": 64}[comp]
            val = draw(st.one_of(st.none(), st.text("0123456789abcdef", min_size=ln, max_size=ln),
                                 st.sampled_from(["abcd", "zz" * (ln // 2), "0" * (ln - 1), "0" * (ln + 2), "",
                                                  "0" * ln + "\n", " " + "0" * ln, "00 " * (ln // 2), "0" * (ln // 2) + " " + "0" * (ln // 2)])))
            ok = val is None or (len(val) == ln and all(c in "0123456789abcdef" for c in val))
            ops.append(("digest-set", draw(st.sampled_from(dig)), comp, ("valid" if ok else "reject", val)))
        else:
            ops.append(("roundtrip",))
    return {"desc": desc, "ops": ops}


def build_candidate(v):
    if isinstance(v, M):
        if v.kind == "object":
            return object()
        if v.kind == "list":
            return list(v.p)
        if v.kind == "dict":
            return dict(v.p)
        if v.kind == "tuple":
            return tuple(build_candidate(x) for x in v.p)
        if v.kind == "pyip":
            return _ip.ip_address(v.p)
        if v.kind == "bytearray":
            return bytearray(v.p)
        if v.kind == "memoryview":
            return memoryview(v.p)
        if v.kind == "array":
            import array

            return array.array("b", v.p)
        if v.kind == "num":
            import decimal
            import fractions

            return {"decimal": decimal.Decimal, "fraction": fractions.Fraction, "complex": complex}[v.p[0]](v.p[1])
        if v.kind == "ftdt":
            return build_ftdt(*v.p)
        if v.kind == "ftinst":
            return ftype(v.p[0])(build_candidate(v.p[1]))
        if v.kind == "typedlist":
            return ftype(v.p[0] + "[]")([build_candidate(x) for x in v.p[1]])
        return gen.build_value(v)
    if isinstance(v, list):
        return [build_candidate(x) for x in v]
    return v


def ftype(t):
    from flow.record.base import fieldtype

    return fieldtype(t)


def check_slot(t, name, v, where):
    """Type invariant of one slot after an accepted operation."""
    from flow.record import Record
    from flow.record.base import FieldType

    if v is None:
        return
    if t.endswith("[]"):
        cls = ftype(t)
        if not isinstance(v, cls):
            raise Violation("invariant/list-class", "%s: field %s (%s) holds %r (%s)" % (where, name, t, v, type(v).__name__),
                            detail=t)
        inner = t[:-2]
        for e in v:
            check_slot(inner, name + "[]", e, where)
        return
    if t == "record":
        if not isinstance(v, Record):
            raise Violation("invariant/record", "%s: record field %s holds %r" % (where, name, type(v).__name__))
        return
    if t == "dynamic":
        if not isinstance(v, FieldType):
            raise Violation("invariant/dynamic", "%s: dynamic field %s holds non-fieldtype %r" % (where, name, type(v).__name__))
        return
    cls = ftype(t)
    if not isinstance(v, cls):
        raise Violation("invariant/scalar-class", "%s: field %s declared %s holds %r of class %s"
                        % (where, name, t, v, type(v).__name__), detail=t)
    if t == "datetime" and v.tzinfo is None:
        raise Violation("invariant/naive-datetime", "%s: field %s holds a naive datetime %r" % (where, name, v))
    if t in U16 and not (0 <= int(v) <= 0xFFFF):
        raise Violation("invariant/range", "%s: %s=%r out of range" % (where, name, v), detail=t)
    if t == "uint32" and not (0 <= int(v) <= 0xFFFFFFFF):
        raise Violation("invariant/range", "%s: %s=%r out of range" % (where, name, v), detail=t)
    if t == "boolean" and int(v) not in (0, 1):
        raise Violation("invariant/range", "%s: %s=%r not 0/1" % (where, name, v), detail=t)
    if t == "digest":
        for comp, ln in (("md5", 32), ("sha1", 40), ("sha256", 64)):
            h = getattr(v, comp)
            if h is not None and not (isinstance(h, str) and len(h) == ln and all(c in "0123456789abcdefABCDEF" for c in h)):
                raise Violation("invariant/digest-component", "%s: %s.%s = %r is not a %d-digit hex string"
                                % (where, name, comp, h, ln))


def check_record(rec, slots, where):
    from flow.record import RecordPacker

    for t, n in slots + [("varint", "_version")]:
        check_slot(t, n, getattr(rec, n), where)
    res = impl(lambda: RecordPacker().pack(rec))
    if not res.ok:
        raise Violation("accepted-but-unserialisable", "%s: RecordPacker().pack raised %r for %r" % (where, res, rec),
                        detail=res.type)


def conversion_check(t, cand, v, where):
    """Documented conversions on the way in."""
    if t in ("string", "wstring") and isinstance(cand, bytes):
        if str(v) != cand.decode(errors="surrogateescape"):
            raise Violation("conversion/bytes-to-text", "%s: %r became %r" % (where, cand, v))
    if t == "datetime" and isinstance(cand, _d.datetime) and cand.tzinfo is None:
        got = (v.year, v.month, v.day, v.hour, v.minute, v.second, v.microsecond, v.utcoffset())
        exp = (cand.year, cand.month, cand.day, cand.hour, cand.minute, cand.second, cand.microsecond, _d.timedelta(0))
        if got != exp:
            raise Violation("conversion/naive-datetime", "%s: naive %r became %r" % (where, cand, v))
    if t in INT_TYPES | U16 | {"uint32"} and isinstance(cand, int) and not isinstance(cand, bool):
        if int(v) != cand:
            raise Violation("conversion/int-value", "%s: %r became %r" % (where, cand, v), detail=t)
    if t == "bytes" and isinstance(cand, bytes) and bytes(v) != cand:
        raise Violation("conversion/bytes-value", "%s: %r became %r" % (where, cand, v))


def run(case, ctx):
    from flow.record import RecordDescriptor, RecordPacker

    name, fields = case["desc"]
    built = impl(lambda: RecordDescriptor(name, [tuple(f) for f in fields]))
    if not built.ok:
        ctx.cls("discarded:descriptor-raised:" + built.type)
        return
    desc = built.value
    slots = [tuple(f) for f in fields] + RESERVED
    rec = desc.recordType(_generated=GENTS)
    check_record(rec, slots, "fresh record")
    rejected_then_accepted = False
    saw_reject = False
    for t, _ in fields:
        ctx.cls("type:" + t)
    for step, op in enumerate(case["ops"]):
        kind = op[0]
        before = observe(rec)
        where = "step %d %s" % (step, kind)
        ctx.cls("op:" + kind)
        if kind == "set":
            _, i, (ccls, cval) = op
            t, n = slots[i]
            cand = build_candidate(cval)
            res = impl(setattr, rec, n, cand)
            outcome_check(ccls, res, "set", t, cand, where)
            if res.ok:
                conversion_check(t, cand, getattr(rec, n), where)
        elif kind == "construct":
            _, mode, cands = op
            vals = [build_candidate(c[1]) for c in cands]
            classes = [c[0] for c in cands]
            if mode == "positional":
                res = impl(lambda: desc.recordType(*vals, _generated=GENTS))
            else:
                res = impl(lambda: desc.recordType(**dict(list(zip([f[1] for f in fields], vals)) + [("_generated", GENTS)])))
            ccls = "reject" if "reject" in classes else "either" if "either" in classes else "valid"
            outcome_check(ccls, res, "construct", "+".join(sorted({f[0] for f, c in zip(fields, classes) if c == ccls})),
                          vals, where)
            if res.ok:
                if observe(rec) != before:
                    raise Violation("construct/modified-other-record", "%s changed an existing record" % where)
                rec = res.value
                for (t, n), v in zip(fields, vals):
                    if v is None:
                        unset_check(t, n, getattr(rec, n), where)
        elif kind == "replace":
            _, pairs = op
            kw = {slots[i][1]: build_candidate(c[1]) for i, c in pairs}
            classes = [c[0] for _, c in pairs]
            res = impl(lambda: rec._replace(**kw))
            ccls = "reject" if "reject" in classes else "either" if "either" in classes else "valid"
            outcome_check(ccls, res, "replace", "+".join(sorted({slots[i][0] for i, c in pairs if c[0] == ccls})), kw, where)
            if observe(rec) != before:
                raise Violation("replace/modified-original", "%s: _replace changed the original record" % where)
            if res.ok:
                new = res.value
                for i, (t, n) in enumerate(slots):
                    if n not in kw and getattr(rec, n) is not None and observe(getattr(new, n)) != observe(getattr(rec, n)):
                        raise Violation("replace/changed-unnamed-field", "%s: field %s changed though not named" % (where, n),
                                        detail=t)
                rec = new
                for n, v in kw.items():
                    if v is None:
                        unset_check(dict((x, t_) for t_, x in slots)[n], n, getattr(rec, n), where)
        elif kind == "digest-set":
            _, i, comp, (ccls, val) = op
            t, n = slots[i]
            d = getattr(rec, n)
            if d is None:
                continue
            res = impl(setattr, d, comp, val)
            outcome_check(ccls, res, "digest-set", "digest", val, where)
        elif kind == "roundtrip":
            p = RecordPacker()
            res = impl(lambda: p.unpack(p.pack(rec)))
            if not res.ok:
                raise Violation("roundtrip/raised", "%s: pack/unpack raised %r" % (where, res), detail=res.type)
            rec = res.value
            before = observe(rec)
        if not res.ok:
            saw_reject = True
            after = observe(rec)
            if after != before:
                raise Violation("failed-%s/record-changed" % kind,
                                "%s raised %r but the record changed: %r -> %r" % (where, res, _d_(before, after)[0],
                                                                                 _d_(before, after)[1]))
        else:
            if saw_reject:
                rejected_then_accepted = True
            check_record(rec, slots, where)
    if rejected_then_accepted:
        ctx.nontriv()


def _d_(a, b):
    from vlib.observe import diff

    return (diff(a, b), "")


def unset_check(t, n, v, where):
    """A field given no value is unset: None, or the type's EMPTY default - whatever other records went through."""
    if t.endswith("[]"):
        ok = v is None or len(v) == 0
    elif t == "digest":
        ok = v is None or (v.md5 is None and v.sha1 is None and v.sha256 is None)
    else:
        return  # scalars: None is the unset form (and _generated=None means "stamp now"); nothing to add here
    if not ok:
        raise Violation("unset-field-holds-a-value", "%s: field %s (%s) was given no value but holds %r" % (where, n, t, v),
                        detail=t)


def outcome_check(ccls, res, opname, t, cand, where):
    if ccls == "valid" and not res.ok:
        raise Violation("%s/valid-rejected" % opname, "%s: valid candidate %r for %s raised %r" % (where, cand, t, res),
                        detail=t)
    if ccls == "reject" and res.ok:
        raise Violation("%s/unrepresentable-accepted" % opname,
                        "%s: candidate %r cannot be represented by %s but was accepted" % (where, cand, t), detail=t)


def default_cases(tier):
    ts = ["digest"] + [t for t in TYPES if t.endswith("[]")]
    return [{"type": t, "how": h, "keyword_field": kw} for t in ts for h in ("omitted", "none", "replace-none", "positional-none")
            for kw in (False, True)]


def check_defaults(case, ctx):
    """The empty default of a list / digest field belongs to ONE record: filling it in place on one record leaves
    the next record that is given no value with an empty field."""
    from flow.record import RecordDescriptor

    t, how = case["type"], case["how"]
    ctx.nontriv()
    ctx.cls("default-of:" + t, "second-record:" + how)
    # (a Python-keyword field name switches the generated constructor to its other template)
    fields = [(t, "f"), ("string", "s")] + ([("string", "class")] if case["keyword_field"] else [])
    desc = RecordDescriptor("t/defaults", fields)
    a = desc.recordType(_generated=GENTS) if how != "positional-none" else desc.recordType(None, _generated=GENTS)
    v = getattr(a, "f")
    if v is None:
        ctx.cls("default-is-None")
        return
    if t == "digest":
        v.md5 = "d41d8cd98f00b204e9800998ecf8427e"
    else:
        inner = t[:-2]
        elem = {"string": "x", "wstring": "x", "uri": "http://a/", "path": "/a", "command": "ls -l", "bytes": b"x", "varint": 1,
                "uint16": 1, "uint32": 1, "float": 1.5, "boolean": True, "filesize": 1, "unix_file_mode": 1,
                "datetime": GENTS, "net.ipaddress": "1.2.3.4", "net.IPAddress": "1.2.3.4", "net.ipnetwork": "10.0.0.0/8",
                "net.IPNetwork": "10.0.0.0/8", "net.ipv4.Address": "1.2.3.4", "net.tcp.Port": 1, "net.udp.Port": 1,
                "digest": ("d41d8cd98f00b204e9800998ecf8427e", None, None), "record": a, "dynamic": "x",
                "stringlist": ["x"], "dictlist": [{"a": 1}]}.get(inner, "x")
        r = impl(lambda: v.append(ftype(inner)(elem) if inner != "record" else elem))
        if not r.ok:
            ctx.cls("discarded:cannot-append")
            return
    if how == "omitted":
        b = desc.recordType(_generated=GENTS)
    elif how == "none":
        b = desc.recordType(f=None, _generated=GENTS)
    elif how == "positional-none":
        b = desc.recordType(None, _generated=GENTS)
    else:
        b = desc.recordType("placeholder" if False else None, _generated=GENTS)._replace(f=None)
    unset_check(t, "f", getattr(b, "f"), "second record (%s) after the first one's default was filled in place" % how)


def parts(tier):
    return [
        Part("shared-defaults", check_defaults, cases=default_cases, exhaustive=True),
        Part("histories", run, strategy=case_strategy(30 if tier == "quick" else 50), examples=(500, 5000)),
    ]
