"""C14 - JSON lines output round-trips and is plain JSON."""
import json
import os
import shutil

from hypothesis import strategies as st

from vlib import gen
from vlib.caseio import M
from vlib.observe import diff, observe
from vlib.runner import Part, Violation, impl

LEVEL = "exploration"
RULE = (
    "Generated descriptors over the JSON-supported field types (text, integers of any size, floats incl. NaN/inf, "
    "booleans, timestamps, bytes, digests, IP addresses and networks, URIs, POSIX paths, and T[] of these) x values "
    "incl. None, big integers, surrogate escapes, empty lists x descriptors on/off x indent in {None, 0, 2, 4}, "
    "written with JsonfileWriter (direct and through RecordWriter URIs) and read with JsonfileReader. Oracle: "
    "descriptors on => deep-observation equality of every record read back; output text is a concatenation of JSON "
    "objects (incremental raw_decode), exactly one per line when no indent is requested, a record document's keys "
    "are the record's fields (+ _type, _recorddescriptor when descriptors are on); descriptors off (jsonlines) => one "
    "record per line whose scalar JSON values are carried unchanged. Non-trivial = >=1 record with >=1 non-None "
    "field; distinct by case digest."
)
ASSUMPTIONS = [
    "'JSON' is what json.loads accepts (NaN/Infinity tokens pass)",
    "integers are kept below CPython's 4300-digit int<->str limit",
]

JSON_SCALARS = ["string", "wstring", "varint", "filesize", "unix_file_mode", "uint16", "uint32", "float", "boolean",
                "datetime", "bytes", "digest", "net.ipaddress", "net.ipnetwork", "uri", "path"]
JSON_TYPES = JSON_SCALARS + [t + "[]" for t in JSON_SCALARS]


def posix_only(spec):
    """Replace windows-flavoured paths by posix ones (JSON output supports POSIX paths)."""
    def fix(v):
        if isinstance(v, M) and v.kind == "path" and v.p[0] == "windows":
            # (half of them keep their backslashes: in a POSIX path a backslash is an ordinary character of a name -
            # systemd unit files, 'report\\final.pdf' - and such a path is still a POSIX path after the round trip)
            if len(v.p[1]) % 2:
                return M("path", ("posix", v.p[1], "from"))
            return M("path", ("posix", v.p[1].replace("\\", "/"), "str"))
        if isinstance(v, list):
            return [fix(x) for x in v]
        return v

    spec = dict(spec)
    spec["vals"] = [fix(v) for v in spec["vals"]]
    return spec


@st.composite
def case_strategy(draw):
    nd = draw(st.integers(1, 2))
    descs = [draw(gen.descriptor_spec(0, JSON_TYPES, max_fields=4)) for _ in range(nd)]
    n = draw(st.integers(0, 5))
    recs = []
    for _ in range(n):
        d = descs[draw(st.integers(0, nd - 1))]
        spec = posix_only(draw(gen.record_spec(0, desc=d, types=JSON_TYPES)))
        if draw(st.integers(0, 5)) == 0:
            # text with a lone surrogate that is NOT an escaped byte (half of a cut UTF-16 pair): JSON has a notation
            # for it (\\ud83d), the value is text like any other
            for k, ((t, _), v) in enumerate(zip(spec["desc"][1], spec["vals"])):
                if t in ("string", "wstring") and isinstance(v, str):
                    # (kept apart from its neighbours: a high surrogate directly followed by a low one IS the JSON
                    # notation of one astral character - a pair no JSON text can tell from that character)
                    spec["vals"][k] = v[:3] + "<" + draw(st.sampled_from(["\ud83d", "\ud800", "\udbff", "\udc00", "\udc7f", "\ud83d\ud83d"])) + ">" + v[3:]
                elif t in ("string[]", "wstring[]") and isinstance(v, list) and v and isinstance(v[0], str):
                    spec["vals"][k] = [v[0] + "|\udc00"] + list(v[1:])
        recs.append(spec)
    return {
        "recs": recs,
        "descriptors": draw(st.sampled_from([True, True, False])),
        "indent": draw(st.sampled_from([None, None, 0, 2, 4])),
        "via": draw(st.sampled_from(["writer", "uri"])),
        # a write() that raises (integer beyond CPython's 4300-digit limit) before / between the good records
        "poison_at": draw(st.sampled_from([None, None, None, 0, 1])),
    }


_NAN = b"\x7f\xf8\x00\x00\x00\x00\x00\x00"


def canon_nan(o):
    """JSON has one NaN token: NaN payload/sign bits are not part of what the format can carry."""
    import struct

    if isinstance(o, tuple):
        if len(o) == 3 and o[0] == "float" and isinstance(o[2], bytes):
            f = struct.unpack(">d", o[2])[0]
            return (o[0], o[1], _NAN) if f != f else o
        return tuple(canon_nan(x) for x in o)
    return o


def _poison(w, like):
    """Write a record that cannot be serialised - same type as `like` when it has an integer field, so that it is the
    FIRST record of its type the writer sees - and swallow the error, as a caller would."""
    from flow.record import RecordDescriptor

    ints = [n for t, n in like._desc.get_field_tuples() if t in ("varint", "filesize", "unix_file_mode")]
    if ints:
        bad = like._replace(**{ints[0]: 10**5000})
    else:
        bad = RecordDescriptor("t/poison", [("varint", "n")])(10**5000)
    try:
        w.write(bad)
    except Exception:
        return
    raise RuntimeError("harness: the poison record was serialised")


JSON_INT_TYPES = ("varint", "uint16", "uint32", "filesize", "unix_file_mode", "net.tcp.Port", "net.udp.Port")


def split_documents(text):
    """Incremental parse: the text must be whitespace-separated JSON documents."""
    dec = json.JSONDecoder()
    docs = []
    i = 0
    n = len(text)
    while True:
        while i < n and text[i] in " \t\r\n":
            i += 1
        if i >= n:
            return docs
        obj, j = dec.raw_decode(text, i)
        docs.append((obj, text[i:j]))
        i = j


def check(case, ctx):
    from flow.record import RecordWriter
    from flow.record.adapter.jsonfile import JsonfileReader, JsonfileWriter

    built = impl(lambda: [gen.build_record(s) for s in case["recs"]])
    if not built.ok:
        ctx.cls("discarded:constructor-raised:" + built.type)
        return
    records = built.value
    descriptors, indent, via = case["descriptors"], case["indent"], case["via"]
    poison_at = case.get("poison_at")
    if poison_at is not None and records:
        ctx.cls("write-raised-then-continued")
    labels = set()
    for s in case["recs"]:
        gen.classify_record(s, labels)
    ctx.cls(*labels)
    ctx.cls("descriptors:%s" % descriptors, "indent:%s" % indent, "via:" + via)
    if any(v is not None for s in case["recs"] for v in s["vals"]):
        ctx.nontriv()
    tmp = ctx.fresh_dir()
    mode = "desc-%s/indent-%s" % ("on" if descriptors else "off", "none" if indent is None else "set")
    try:
        p = os.path.join(tmp, "o.json")

        def write():
            if via == "writer":
                w = JsonfileWriter(p, indent=indent, descriptors=descriptors)
            else:
                q = []
                if indent is not None:
                    q.append("indent=%d" % indent)
                if not descriptors:
                    q.append("descriptors=false")
                w = RecordWriter("jsonfile://" + p + ("?" + "&".join(q) if q else ""))
            try:
                for i, r in enumerate(records):
                    if poison_at == i or (poison_at is not None and i == 0 and poison_at >= len(records)):
                        _poison(w, r)
                    w.write(r)
                w.flush()
            finally:
                w.close()

        res = impl(write)
        if not res.ok:
            raise Violation("write-raised", "writing %r raised %r" % (records, res), detail=res.type)
        raw = open(p, "rb").read()
        try:
            text = raw.decode("utf-8")  # JSON text is UTF-8: bytes that are not, are not part of a JSON document
        except UnicodeDecodeError as e:
            raise Violation("shape/not-utf8", "%s: the output is not UTF-8 text (%s): %r" % (mode, e.reason, raw[max(0, e.start - 20): e.end + 10]))
        # ---- output shape
        try:
            docs = split_documents(text)
        except ValueError as e:
            raise Violation("shape/not-json", "%s: output is not a sequence of JSON documents: %s" % (mode, e))
        for obj, _ in docs:
            if not isinstance(obj, dict):
                raise Violation("shape/not-object", "%s: a document is %r" % (mode, type(obj).__name__))
        recdocs = [d for d in docs if d[0].get("_type") != "recorddescriptor"]
        if len(recdocs) != len(records):
            raise Violation("shape/count", "%s: %d record documents for %d records" % (mode, len(recdocs), len(records)))
        if indent is None:
            lines = [ln for ln in text.split("\n") if ln != ""]
            if len(lines) != len(docs) or any(ln != raw for ln, (_, raw) in zip(lines, docs)):
                raise Violation("shape/not-one-per-line", "%s: %d lines for %d documents" % (mode, len(lines), len(docs)))
        for (obj, _), r in zip(recdocs, records):
            want = list(r.__slots__) + (["_type", "_recorddescriptor"] if descriptors else [])
            if sorted(obj.keys()) != sorted(want):
                raise Violation("shape/keys", "%s: keys %r, expected %r" % (mode, sorted(obj.keys()), sorted(want)))
        # ---- plain JSON values: an integer field is a JSON number of that value (whatever its size), a boolean is
        # true/false, a float a JSON float, text a JSON string - in the raw line, before any typed reader restores them
        for (obj, _), r, spec in zip(recdocs, records, case["recs"]):
            for (t, name) in spec["desc"][1]:
                inner = t[:-2] if t.endswith("[]") else t
                val, js = getattr(r, name), obj.get(name)
                pairs = [(val, js)] if not t.endswith("[]") else (
                    list(zip(val, js)) if isinstance(js, list) and val is not None and len(js) == len(val) else [])
                for v, j in pairs:
                    if v is None:
                        continue
                    if inner in JSON_INT_TYPES:
                        ok = type(j) is int and j == int(v)
                    elif inner == "boolean":
                        # (elements of boolean[] are written as 0/1; nothing in the statement speaks about them)
                        ok = (type(j) is bool or t.endswith("[]")) and j == bool(v)
                    elif inner == "float":
                        ok = type(j) is float and (j == float(v) or (j != j and v != v))
                    elif inner in ("string", "wstring"):
                        ok = type(j) is str
                    else:
                        continue
                    if not ok:
                        raise Violation("shape/json-value-kind", "%s: field %s (%s) holds %r but the line carries %s %r"
                                        % (mode, name, t, v, type(j).__name__, j if len(repr(j)) < 80 else repr(j)[:80]),
                                        detail=inner)
        if not descriptors and any(d[0].get("_type") for d in docs):
            raise Violation("shape/type-marker-without-descriptors", "%s: _type present" % mode)
        # ---- reading back
        if descriptors and indent is None:
            def read():
                rd = JsonfileReader(p)
                try:
                    return list(rd)
                finally:
                    rd.close()

            got = impl(read)
            if not got.ok:
                raise Violation("roundtrip/read-raised", "reading back raised %r; text %r" % (got, text[:300]),
                                detail=_blame(case, got))
            if len(got.value) != len(records):
                raise Violation("roundtrip/count", "wrote %d read %d" % (len(records), len(got.value)))
            for i, (a, b) in enumerate(zip(records, got.value)):
                oa, ob = canon_nan(observe(a)), canon_nan(observe(b))
                if oa != ob:
                    from props.C01 import slot_sig

                    raise Violation("roundtrip/differs", "record %d: %s" % (i, diff(oa, ob)), detail=slot_sig(oa, ob))
        if not descriptors and indent is None:
            def read2():
                rd = JsonfileReader(p)
                try:
                    return list(rd)
                finally:
                    rd.close()

            got = impl(read2)
            if not got.ok:
                raise Violation("plain-lines/read-raised", "jsonlines without descriptors cannot be read back: %r; %r"
                                % (got, text[:300]), detail=got.type)
            if len(got.value) != len(records):
                raise Violation("plain-lines/count", "wrote %d lines, read %d records" % (len(records), len(got.value)))
            for (obj, _), rec in zip(recdocs, got.value):
                for k, v in obj.items():
                    if isinstance(v, (dict, list)):
                        continue
                    g = getattr(rec, k, "<absent>")
                    if k == "_generated":
                        continue
                    if isinstance(v, float) and v != v:
                        ok = isinstance(g, float) and g != g
                    elif v is None:
                        ok = g is None
                    elif isinstance(v, bool):
                        ok = bool(g) == v and not isinstance(g, str)
                    else:
                        ok = g == v and type(g).__mro__[1] in (type(v), int, float, str) and isinstance(g, type(v))
                    if not ok:
                        raise Violation("plain-lines/scalar-changed", "key %s: JSON value %r read back as %r" % (k, v, g),
                                        detail=type(v).__name__)
    finally:
        shutil.rmtree(tmp, ignore_errors=True)


def _blame(case, res):
    ts = sorted({t for s in case["recs"] for (t, _), v in zip(s["desc"][1], s["vals"])})
    if "bytes" in ts and any(t == "bytes" and v is None for s in case["recs"] for (t, _), v in zip(s["desc"][1], s["vals"])):
        return "bytes-none"
    if "bytes[]" in ts:
        return "bytes-list"
    return res.type


def parts(tier):
    return [Part("json", check, strategy=case_strategy(), examples=(250, 5000))]
