"""C13 - Timestamps are timezone-aware and keep their instant everywhere."""
import datetime as _d
import json
import os
import shutil
import subprocess
import sys

from hypothesis import strategies as st

from vlib import gen
from vlib.runner import REPO, VERIF, Part, Violation, impl

LEVEL = "exploration"
RULE = (
    "Generated datetimes (year 1/9999 edges, 1969-12-31T23:59:59.999999, DST gap and fold wall times, random) x tzinfo "
    "kinds (timezone.utc, ZoneInfo('UTC'), fixed offsets in whole seconds up to +-23:59:59, IANA zones with fold 0/1, "
    "naive) x input forms (object, isoformat text with 'T', space, 'Z', epoch int/float) x storage formats (binary "
    "stream, JSON, SQLite, Avro) x display settings FLOW_RECORD_TZ in {unset, UTC, Europe/Amsterdam, NONE, invalid} x "
    "TZ in {UTC, America/New_York} (one worker process per setting). Oracle: field value aware; naive => offset 0 "
    "with the same wall fields; aware object => same wall fields and utcoffset as the input (fold honoured); epoch => "
    "EPOCH + seconds (floats within 1 us); round trip keeps (wall fields, offset) for stream/JSON/SQLite and the UTC "
    "instant to the microsecond (offset 0) for Avro; bytes written, stored values and ==/hash results are identical "
    "under all display settings. Non-trivial = non-UTC or pre-1970 or fold/gap or edge-year timestamp."
    " Also: values that already are instances of the field type (made by replace / combine / fromisoformat ...), and wall times of year 1 / 9999 whose UTC instant lies outside years 1..9999 (stream and JSON)."
)
ASSUMPTIONS = [
    "UTC offsets with sub-second parts are outside the domain (CPython's isoformat/fromisoformat)",
    "for Avro, instants whose UTC value falls outside years 1-9999 are outside the domain",
]

UTC = _d.timezone.utc


def sr(v):
    """repr for messages that cannot fail: the field type's own str() goes through the display zone and may overflow."""
    try:
        if isinstance(v, _d.datetime):
            return "%s(fold=%d)" % (_d.datetime.isoformat(v), v.fold)
        return repr(v)
    except Exception as e:  # noqa: B902
        return "<unprintable %s: %s>" % (type(v).__name__, type(e).__name__)
EPOCH = _d.datetime(1970, 1, 1, tzinfo=UTC)


def wall_off(d):
    off = d.utcoffset()
    return (d.year, d.month, d.day, d.hour, d.minute, d.second, d.microsecond,
            None if off is None else off.days * 86400 + off.seconds + off.microseconds / 1e6)


def nontrivial(d):
    off = d.utcoffset()
    return (off not in (None, _d.timedelta(0))) or d.year < 1970 or d.fold or d.year in (1, 9999)


# ---------------------------------------------------------------------------------------------
# construction


@st.composite
def construct_case(draw):
    d = draw(gen.datetimes())
    form = draw(st.sampled_from(["object", "object", "iso-T", "iso-space", "iso-Z", "epoch-int", "epoch-float",
                                 "field-assign", "bytes-iso", "ft-instance-construct", "ft-instance-assign",
                                 "ft-instance-list", "ft-instance-replace"]))
    return {"dt": d, "form": form}


def check_construct(case, ctx):
    import flow.record.fieldtypes as ft
    from flow.record import RecordDescriptor

    d, form = case["dt"], case["form"]
    ctx.cls("form:" + form, "tz:" + tzkind(d))
    if nontrivial(d):
        ctx.nontriv()
    exp_off = 0.0 if d.tzinfo is None else wall_off(d)[7]
    exp = wall_off(d)[:7] + (exp_off,)
    if form.startswith("ft-instance-"):
        # the input is already an INSTANCE OF THE FIELD TYPE with d's wall time and tzinfo - what a caller holds after
        # `other.ts.replace(tzinfo=...)` (naive when d is naive). Every way into a record must still give an aware value.
        made = impl(lambda: ft.datetime(d if d.tzinfo is not None else d.replace(tzinfo=UTC)).replace(tzinfo=d.tzinfo, fold=d.fold))
        if not made.ok or not isinstance(made.value, ft.datetime):
            ctx.cls("ft-instance:not-constructible")
            return
        x = made.value
        desc = RecordDescriptor("c13/fi", [("datetime", "ts"), ("datetime[]", "tl")])
        if form == "ft-instance-construct":
            res = impl(lambda: desc(ts=x, _generated=EPOCH).ts)
        elif form == "ft-instance-assign":
            def f():
                r = desc(_generated=EPOCH)
                r.ts = x
                return r.ts
            res = impl(f)
        elif form == "ft-instance-list":
            res = impl(lambda: desc(tl=[x], _generated=EPOCH).tl[0])
        else:
            res = impl(lambda: desc(_generated=EPOCH)._replace(ts=x).ts)
        sig = "construct/field-type-instance"
    elif form in ("object", "field-assign"):
        if form == "object":
            res = impl(ft.datetime, d)
        else:
            desc = RecordDescriptor("c13/f", [("datetime", "ts")])
            res = impl(lambda: desc(d, _generated=EPOCH).ts)
        sig = "construct/object"
    elif form in ("iso-T", "iso-space", "iso-Z", "bytes-iso"):
        if d.tzinfo is None:
            text = d.isoformat()
        else:
            text = d.isoformat()
        if form == "iso-space":
            text = text.replace("T", " ")
        if form == "iso-Z":
            if exp_off != 0.0:
                return
            text = d.replace(tzinfo=None).isoformat() + "Z"
        arg = text.encode() if form == "bytes-iso" else text
        res = impl(ft.datetime, arg)
        sig = "construct/iso"
    else:
        aware = d if d.tzinfo is not None else d.replace(tzinfo=UTC)
        delta = aware - EPOCH
        if form == "epoch-int":
            secs = delta.days * 86400 + delta.seconds
            exp_dt = EPOCH + _d.timedelta(seconds=secs)
            res = impl(ft.datetime, secs)
            tol = 0
        else:
            secs = delta.total_seconds()
            exp_dt = EPOCH + delta
            res = impl(ft.datetime, secs)
            tol = 1 if abs(secs) < 2**33 else None  # float seconds carry < 1 us only within ~270 years of the epoch
        sig = "construct/epoch"
        if not res.ok:
            if isinstance(res.exc, (OverflowError, OSError, ValueError)) and not (1 < exp_dt.year < 9999):
                ctx.cls("epoch:platform-range")
                return
            raise Violation(sig + "/raised", "datetime(%r) raised %r" % (secs, res), detail=res.type)
        v = res.value
        if v.tzinfo is None or v.utcoffset() != _d.timedelta(0):
            raise Violation(sig + "/not-utc", "datetime(%r) -> %s" % (secs, sr(v)))
        if tol is not None:
            diff = abs((v - exp_dt) / _d.timedelta(microseconds=1))
            if diff > tol:
                raise Violation(sig + "/instant", "datetime(%r) -> %s, expected %r (off by %s us)" % (secs, sr(v), exp_dt, diff))
        return
    if not res.ok:
        raise Violation(sig + "/raised", "%s of %r raised %r" % (form, d, res), detail=res.type)
    v = res.value
    if not isinstance(v, ft.datetime):
        raise Violation(sig + "/class", "%s is not a datetime field value" % (sr(v),))
    if v.tzinfo is None:
        raise Violation(sig + "/naive", "%s of %r gave a naive value" % (form, d))
    got = wall_off(v)
    if got != exp:
        what = "fold" if (got[:7] == exp[:7] and d.fold) else "wall" if got[:7] != exp[:7] else "offset"
        raise Violation(sig + "/" + what, "%s of %r (fold=%d, offset %s) -> %s (offset %s)"
                        % (form, d, d.fold, exp[7], sr(v), got[7]), detail=tzkind(d))


def tzkind(d):
    from zoneinfo import ZoneInfo

    if d.tzinfo is None:
        return "naive"
    if d.tzinfo is UTC:
        return "utc"
    if isinstance(d.tzinfo, ZoneInfo):
        return "zone"
    return "fixed"


# ---------------------------------------------------------------------------------------------
# storage round trip


@st.composite
def roundtrip_case(draw):
    dts = draw(st.lists(gen.datetimes(), min_size=1, max_size=4))
    # the same instant under another offset / the other fold of the same wall time (values that compare equal)
    for _ in range(draw(st.integers(0, 2))):
        base = dts[draw(st.integers(0, len(dts) - 1))]
        tz = draw(gen.tzinfos(naive=False))
        try:
            aware = base if base.tzinfo is not None else base.replace(tzinfo=UTC)
            other = aware.astimezone(tz) if draw(st.booleans()) else base.replace(fold=1 - base.fold)
            if other.utcoffset() is None or not other.utcoffset().microseconds:
                dts.append(other)
        except (OverflowError, ValueError):
            pass
    # the same zone object in another season (its offset differs), before or after the value it was derived from
    for _ in range(draw(st.integers(0, 2))):
        j = draw(st.integers(0, len(dts) - 1))
        base = dts[j]
        if base.tzinfo is None:
            continue
        try:
            other = base.replace(fold=0) + _d.timedelta(days=draw(st.sampled_from([182, -182, 91, -91, 365])))
        except OverflowError:
            continue
        if other.utcoffset() is None or not other.utcoffset().microseconds:
            dts.insert(draw(st.sampled_from([j, j + 1, len(dts)])), other)
    if draw(st.integers(0, 3)) == 0:
        # a zone that coincides with UTC for part of the year, both seasons in one file (either order)
        from zoneinfo import ZoneInfo

        z = ZoneInfo(draw(st.sampled_from(["Europe/London", "Europe/Lisbon", "Africa/Casablanca", "Europe/Dublin"])))
        y = draw(st.integers(1975, 2037))
        pair = [_d.datetime(y, 1, 15, 12, 30, 1, 5, tzinfo=z), _d.datetime(y, 7, 15, 12, 30, 1, 5, tzinfo=z)]
        if draw(st.booleans()):
            pair.reverse()
        dts = (pair + dts) if draw(st.booleans()) else (dts + pair)
    fmt = draw(st.sampled_from(["stream", "stream.gz", "json", "sqlite", "avro"]))
    if fmt in ("stream", "stream.gz", "json") and draw(st.integers(0, 3)) == 0:
        # first / last hours of the calendar under an offset that puts the UTC instant outside years 1..9999: the
        # value itself (wall time and offset) is a timestamp of year 1 / 9999 like any other and is stored as it is
        for _ in range(draw(st.integers(1, 2))):
            tz = draw(gen.tzinfos(naive=False))
            wall = draw(st.sampled_from([(1, 1, 1, 0, 0, 0, 0), (1, 1, 1, 0, 10, 0, 5), (9999, 12, 31, 23, 59, 59, 999999),
                                         (9999, 12, 31, 23, 50, 0, 0)]))
            try:
                d = _d.datetime(*wall, tzinfo=tz)
                off = d.utcoffset()
            except (OverflowError, ValueError):
                continue
            if off is not None and not off.microseconds:
                dts.insert(draw(st.integers(0, len(dts))), d)
    return {"dts": dts, "fmt": fmt}


def check_roundtrip(case, ctx):
    import flow.record.fieldtypes as ft
    from flow.record import RecordDescriptor, RecordReader, RecordWriter

    fmt = case["fmt"]
    desc = RecordDescriptor("c13/rt", [("datetime", "ts"), ("varint", "i")] + ([] if fmt == "avro" else [("datetime[]", "tss")]))
    vals = []
    for d in case["dts"]:
        v = impl(ft.datetime, d)
        if not v.ok:
            raise Violation("construct/object/raised", "%r" % (v,))
        vals.append(v.value)
    if fmt == "avro":
        vals = [v for v in vals if 1 < v.astimezone(UTC).year < 9999]
        if not vals:
            return
    ctx.cls("fmt:" + fmt)
    for v in vals:
        ctx.cls("tz:" + tzkind(v))
    if any(nontrivial(v) for v in vals):
        ctx.nontriv()
    tmp = ctx.fresh_dir()
    try:
        url = {"stream": os.path.join(tmp, "x.records"), "stream.gz": os.path.join(tmp, "x.records.gz"),
               "json": os.path.join(tmp, "x.json"), "sqlite": "sqlite://" + os.path.join(tmp, "x.db"),
               "avro": os.path.join(tmp, "x.avro")}[fmt]

        def rt():
            w = RecordWriter(url)
            try:
                for i, v in enumerate(vals):
                    if fmt == "avro":
                        w.write(desc(v, i, _generated=v))
                    else:
                        w.write(desc(v, i, [v, vals[0]], _generated=v))
                w.flush()
            finally:
                w.close()
            rd = RecordReader(url)
            try:
                return list(rd)
            finally:
                rd.close()

        res = impl(rt)
        if not res.ok:
            raise Violation("roundtrip/%s/raised" % fmt.split(".")[0], "round trip of %s raised %r" % ([sr(x) for x in vals], res), detail=res.type)
        got = res.value
        if len(got) != len(vals):
            raise Violation("roundtrip/%s/count" % fmt, "wrote %d read %d" % (len(vals), len(got)))
        for v, r in zip(vals, got):
            pairs = [("ts", v, r.ts), ("_generated", v, r._generated)]
            if fmt not in ("avro", "sqlite"):
                pairs += [("tss[0]", v, r.tss[0]), ("tss[1]", vals[0], r.tss[1])]
            for name, a, b in pairs:
                if not isinstance(b, _d.datetime) or b.tzinfo is None:
                    raise Violation("roundtrip/%s/not-aware" % fmt.split(".")[0], "%s read back as %s" % (name, sr(b)))
                if fmt == "avro":
                    ia = a.astimezone(UTC)
                    if wall_off(b) != wall_off(ia):
                        raise Violation("roundtrip/avro/instant", "%s: wrote %s (UTC %s), read %s" % (name, sr(a), sr(ia), sr(b)))
                elif wall_off(a) != wall_off(b):
                    what = "offset" if wall_off(a)[:7] == wall_off(b)[:7] else "wall"
                    raise Violation("roundtrip/%s/%s" % (fmt.split(".")[0], what), "%s: wrote %s read %s" % (name, sr(a), sr(b)),
                                    detail=tzkind(a))
    finally:
        shutil.rmtree(tmp, ignore_errors=True)


# ---------------------------------------------------------------------------------------------
# display settings

SETTINGS = [(frt, tz) for frt in (None, "UTC", "Europe/Amsterdam", "NONE", "Not/AZone")
            for tz in ("UTC", "America/New_York")]
# values that are not zone names at all (empty, path-like, other case): still only a display matter
SETTINGS += [(frt, "UTC") for frt in ("", "../UTC", "/etc/localtime", "none", "Europe", "Asia/Kolkata")]
_REF = {}


def run_worker(seed, frt, tz):
    env = dict(os.environ)
    env.pop("FLOW_RECORD_TZ", None)
    if frt is not None:
        env["FLOW_RECORD_TZ"] = frt
    env["TZ"] = tz
    env["VERIF_REPO"] = REPO
    env["PYTHONWARNINGS"] = "ignore"
    p = subprocess.run([sys.executable, "-m", "vlib.c13_worker", str(seed)], cwd=VERIF, env=env, stdout=subprocess.PIPE,
                       stderr=subprocess.PIPE, timeout=300)
    if p.returncode != 0:
        return None, p.stderr.decode("utf8", "replace")[-1500:]
    return json.loads(p.stdout.decode().strip().splitlines()[-1]), ""


def setting_cases(tier):
    return [{"frt": f, "tz": t} for f, t in SETTINGS]


def check_setting(case, ctx):
    seed = ctx.seed
    if seed not in _REF:
        ref, err = run_worker(seed, None, "UTC")
        if ref is None:
            raise Violation("display/worker-failed", "reference worker failed: %s" % err)
        _REF[seed] = ref
    ref = _REF[seed]
    got, err = run_worker(seed, case["frt"], case["tz"])
    ctx.nontriv()
    ctx.cls("FLOW_RECORD_TZ=%s" % case["frt"], "TZ=%s" % case["tz"])
    name = "FLOW_RECORD_TZ=%s,TZ=%s" % (case["frt"], case["tz"])
    if got is None:
        raise Violation("display/worker-failed", "%s: %s" % (name, err), detail=str(case["frt"]))
    ctx.count(got["n"])
    # 'sqlite-datetime-list' last: it is a listed finding, and the first difference found ends the case
    for k in ("stream", "json", "sqlite", "avro", "stored", "eq", "read-stream", "read-json", "read-sqlite", "read-avro",
              "sqlite-datetime-list"):
        if got[k] != ref[k]:
            raise Violation("display/%s-differs" % k, "%s: %s digest %s differs from the default setting's %s (display %s)"
                            % (name, k, got[k][:12], ref[k][:12], got["display"]))
    if not got["hash-consistent"]:
        raise Violation("display/hash", "%s: equal records hash differently" % name)


def parts(tier):
    return [
        Part("construct", check_construct, strategy=construct_case(), examples=(600, 40000)),
        Part("roundtrip", check_roundtrip, strategy=roundtrip_case(), examples=(80, 5000)),
        Part("display-settings", check_setting, cases=setting_cases, exhaustive=True, shards=10),
    ]
