"""C10 - Reading with a selector equals filtering afterwards; matching is pure."""
import os
import shutil

from hypothesis import strategies as st

from vlib import selgen
from vlib.observe import diff, observe
from vlib.runner import Part, Violation, impl

LEVEL = "exploration"
RULE = (
    "Generated record sequences (0-8 records, 1-2 descriptors) written with each adapter's own writer (stream, "
    "jsonfile, avro, csvfile, sqlite) x selectors from the C07 grammar (given as text, Selector, CompiledSelector). "
    "Oracle (metamorphic): list(Reader(src, selector=s)) has the same deep observations, in the same order, as the "
    "post-filter of list(Reader(src)) with a fresh selector; if the post-filter raises at record k, the filtered "
    "iteration yields the same prefix and raises the same exception type. Purity: observe(rec) identical before and "
    "after match, match twice gives the same value, and one reused selector object over the sequence, its reverse "
    "and a generated permutation gives the per-record results of fresh selectors. Non-trivial = 0 < kept < n."
    " Also: reader URLs with query options, grouped records of two compositions, Type matcher expressions."
)
ASSUMPTIONS = [
    "the selector semantics themselves are C07/C08; here only reader-filter equivalence and purity are judged",
]

FIELDS = [("string", "s"), ("string", "s2"), ("string", "opt"), ("varint", "n"), ("varint", "m"), ("float", "f"),
          ("boolean", "b"), ("filesize", "size")]
FIELDS2 = [("string", "s"), ("varint", "n"), ("string", "extra")]

FIELDS_HELPER_EXPRS = [
    "any(f.name == 'u' for f in fields('uri'))", "(fields('uri') == [])", "any(f.name == 'extra' for f in fields('string'))",
    "all(f.name != 's0' for f in fields('string'))", "(str(fields('filesize')) == '[]')",
    "(any(f.name == 'n0' for f in fields('varint')) or r.n > 5)", "(not fields('float'))",
]

LIST_HELPER_EXPRS = [
    "field_equals(r, ['sl'], ['a'])", "field_contains(r, ['sl', 's'], ['hello'])", "field_equals(r, ['s', 'sl'], ['foo'], nocase=True)",
    "(lower(r.sl) == ['a'])", "(upper(r.sl) != [])", "('a' in lower(r.sl))", "(field_contains(r, ['sl'], ['A']) or ('A' in r.sl))",
    "(('Hello World' in r.sl) and field_equals(r, ['sl'], ['zzz']))", "field_regex(r, ['sl'], 'a')",
]

TYPE_MATCHER_EXPRS = [
    "(Type.string == 'hello')", "('a' in Type.string)", "(Type.string != '')", "(Type.varint > 1)", "(Type.string == r.s)",
    "any(w in Type.string for w in ['a', 'foo'])", "((Type.string == 'foo') or (Type.varint == 3))", "(Type.string == 'tagged')",
]

ENGINE_SENSITIVE_EXPRS = [
    "((r.opt < 'b') or (r.s2 not in ['zzz']))", "((r.opt >= 'a') or (r.extra not in ['zzz']))",
    "((r.s2 not in ['zzz']) or (r.opt < 'b'))", "((r.opt < 'b') or (r.m not in [999]))",
    "(((r.opt < 'b') and r.b) or (r.extra not in ['', 'a']))",
]

ADAPTERS = ["stream", "jsonfile", "jsonfile-plain", "avro", "csvfile", "sqlite"]


def url_for(adapter, d):
    return {
        "stream": os.path.join(d, "x.records"),
        "jsonfile": os.path.join(d, "x.json"),
        "jsonfile-plain": "jsonfile://" + os.path.join(d, "y.json"),
        "avro": os.path.join(d, "x.avro"),
        "csvfile": "csvfile://" + os.path.join(d, "x.csv"),
        "sqlite": "sqlite://" + os.path.join(d, "x.db"),
    }[adapter]


@st.composite
def case_strategy(draw):
    adapter = draw(st.sampled_from(ADAPTERS + ["stream", "jsonfile"]))
    n = draw(st.integers(0, 12))
    recs = []
    for _ in range(n):
        v = draw(selgen.record_values())
        second = adapter in ("stream", "jsonfile", "sqlite") and draw(st.integers(0, 3)) == 0
        if adapter == "stream" and draw(st.integers(0, 5)) == 0:
            # grouped records of two compositions under one group name (all grouped records are one Python class)
            recs.append({"v": {k: v[k] for k in ("s", "s2", "n", "src", "cls")}, "second": False, "full": False,
                         "grouped": draw(st.integers(0, 1))})
        elif adapter in ("stream", "jsonfile"):
            recs.append({"v": v, "second": second, "full": True})
        else:
            recs.append({"v": {k: v[k] for k in ("s", "s2", "opt", "n", "m", "f", "b", "size", "src", "cls")}, "second": second,
                         "full": False})
    expr = draw(selgen.expressions(3))
    form = draw(st.sampled_from(["text", "interpreted", "compiled"]))
    if draw(st.integers(0, 11)) == 0:
        # expressions on which the two engines are known to differ (ordering against an unset value raises in the
        # compiled one, `not in` on a missing field differs): whichever engine a selector object uses, it must use
        # it for every record
        expr = {"src": draw(st.sampled_from(ENGINE_SENSITIVE_EXPRS)), "features": ["engine-sensitive"]}
    elif draw(st.integers(0, 11)) == 0:
        # helpers handed the record's own list values: whatever they answer, the record stays as it was
        expr = {"src": draw(st.sampled_from(LIST_HELPER_EXPRS)), "features": ["helper-on-list-field"]}
    elif draw(st.integers(0, 9)) == 0:
        # the interpreted engine's fields(<type>) helper answers per record type: a good probe for state that a
        # selector object carries from one record to the next (the compiled engine does not have the helper)
        expr = {"src": draw(st.sampled_from(FIELDS_HELPER_EXPRS)), "features": ["helper:fields"]}
        form = draw(st.sampled_from(["text", "interpreted"]))
    perm = draw(st.permutations(list(range(n))))
    if draw(st.integers(0, 9)) == 0:
        expr = {"src": draw(st.sampled_from(TYPE_MATCHER_EXPRS)), "features": ["type-matcher"]}
    # the source may be named by a URL with query options (reader options, or options the reader ignores)
    rq = draw(st.sampled_from([None, None, "x=1", "batch_size=2", "batch_size=1&x=y"]))
    return {"adapter": adapter, "recs": recs, "expr": expr, "form": form, "perm": perm, "rq": rq}


def make_sel(form, src):
    from flow.record.selector import CompiledSelector, Selector

    if form == "text":
        return src
    return Selector(src) if form == "interpreted" else CompiledSelector(src)


def fresh(form, src):
    from flow.record.selector import CompiledSelector, Selector

    return CompiledSelector(src) if form == "compiled" else Selector(src)


def iterate(reader_factory):
    out, exc = [], None
    try:
        rd = reader_factory()
        try:
            for r in rd:
                out.append(r)
        finally:
            try:
                rd.close()
            except Exception:
                pass
    except Exception as e:  # noqa: B902
        exc = e
    return out, exc


def check(case, ctx):
    from flow.record import RecordDescriptor, RecordReader, RecordWriter

    d1 = RecordDescriptor("sel/rec", FIELDS)
    d2 = RecordDescriptor("sel/second", FIELDS2)
    records = []
    for r in case["recs"]:
        v = r["v"]
        if r.get("grouped") is not None:
            from flow.record import GroupedRecord

            da = RecordDescriptor("sel/ga", [("varint", "n")])
            db = RecordDescriptor("sel/gb", [("string", "tag"), ("string", "s2")])
            m2 = d2(v["s"], v["n"], v["s2"], _generated=selgen.GEN, _source=v.get("src"), _classification=v.get("cls"))
            if r["grouped"] == 0:
                records.append(GroupedRecord("sel/grp", [m2, da(v["n"], _generated=selgen.GEN)]))
            else:
                records.append(GroupedRecord("sel/grp", [db("tagged", v["s2"], _generated=selgen.GEN), da(v["n"], _generated=selgen.GEN)]))
            ctx.cls("grouped-composition:%d" % r["grouped"])
        elif r["second"]:
            records.append(d2(v["s"], v["n"], v["s2"], _generated=selgen.GEN, _source=v.get("src"),
                              _classification=v.get("cls")))
        elif r.get("full"):
            records.append(selgen.build_record(v))
        else:
            records.append(d1(_generated=selgen.GEN, _source=v.get("src"), _classification=v.get("cls"),
                              **{k: x for k, x in v.items() if k not in ("src", "cls")}))
    adapter, src, form = case["adapter"], case["expr"]["src"], case["form"]
    ctx.cls("adapter:" + adapter, "form:" + form)
    tmp = ctx.fresh_dir()
    try:
        url = url_for(adapter, tmp)
        if records or adapter in ("stream", "jsonfile", "jsonfile-plain", "sqlite"):
            w = RecordWriter(url + ("?descriptors=false" if adapter == "jsonfile-plain" else ""))
            try:
                for r in records:
                    w.write(r)
                w.flush()
            finally:
                w.close()
        else:
            ctx.cls("skipped:empty-" + adapter)
            return
        plain, exc0 = iterate(lambda: RecordReader(url))
        if exc0 is not None:
            ctx.cls("reader-raised-without-selector:" + type(exc0).__name__)
            return
        untouched = [observe(r) for r in plain]  # before any selector has seen the records
        # post-filter with a fresh selector
        f = fresh(form, src)
        kept, exc_after = [], None
        results = []
        for r in plain:
            try:
                m = bool(f.match(r))
            except Exception as e:  # noqa: B902
                exc_after = e
                break
            results.append(m)
            if m:
                kept.append(r)
        # independent cross-check (catches state shared by ALL selector objects of the process): for the
        # selgen-shaped records of stream/json the reference evaluator must agree with the post-filter
        if exc_after is None and adapter == "stream":
            for r, m in zip(plain, results):
                if hasattr(r, "records"):
                    continue
                if len(r._desc.get_field_tuples()) != len(selgen.SEL_FIELDS) and selgen.DROPPED_IN_FEWER.search(src):
                    continue
                ref = impl(selgen.reference_eval, src, r)
                if ref.ok and bool(ref.value) != m:
                    raise Violation("post-filter/differs-from-reference", "%s [%s]: match() gives %r, Python evaluation %r "
                                    "for a %s record with fields %r" % (src, form, m, ref.value, r._desc.name,
                                                                         [n for _, n in r._desc.get_field_tuples()]))
        for i, r in enumerate(plain):
            if observe(r) != untouched[i]:
                raise Violation("purity/record-modified", "%s [%s]: matching changed record %d: %s"
                                % (src, form, i, diff(untouched[i], observe(r))))
        rurl = url
        if case.get("rq"):
            scheme = {"stream": "stream", "jsonfile": "jsonfile", "jsonfile-plain": "jsonfile", "avro": "avro",
                      "csvfile": "csvfile", "sqlite": "sqlite"}[adapter]
            rurl = "%s://%s?%s" % (scheme, url.split("://", 1)[-1], case["rq"])
            ctx.cls("reader-url-with-query")
        during, exc_during = iterate(lambda: RecordReader(rurl, selector=make_sel(form, src)))
        # what a reader yields under a selector is the stored record, not one the selector has worked on
        by_obs = {}
        for o in untouched:
            by_obs[o] = by_obs.get(o, 0) + 1
        for r in during:
            if observe(r) not in by_obs:
                raise Violation("reader/%s/yields-modified-record" % adapter, "%s [%s]: the reader yielded a record that is not "
                                "among the stored ones: %r" % (src, form, r))
        if 0 < len(kept) < len(plain):
            ctx.nontriv()
        ctx.cls("kept:%s" % ("none" if not kept else "all" if len(kept) == len(plain) else "some"))
        base = "reader/%s" % adapter
        oa, ob = tuple(observe(r) for r in kept), tuple(observe(r) for r in during)
        if oa != ob:
            what = "fewer" if len(ob) < len(oa) else "more" if len(ob) > len(oa) else "different"
            raise Violation(base + "/" + what, "%s [%s]: filtering while reading gave %d records, filtering afterwards %d: %s"
                            % (src, form, len(ob), len(oa), diff(oa, ob)))
        ta = type(exc_after).__name__ if exc_after else None
        tb = type(exc_during).__name__ if exc_during else None
        if ta != tb:
            raise Violation(base + "/exception-differs", "%s [%s]: post-filter ended with %r, reader with selector "
                            "ended with %r" % (src, form, exc_after, exc_during))
        if exc_after is not None:
            ctx.cls("selector-raised")
            return
        # purity
        for i, r in enumerate(plain):
            before = observe(r)
            g = fresh(form, src)
            m1 = bool(g.match(r))
            m2 = bool(g.match(r))
            if observe(r) != before:
                raise Violation("purity/record-modified", "%s [%s] modified record %d" % (src, form, i))
            if m1 != m2 or m1 != results[i]:
                raise Violation("purity/not-deterministic", "%s [%s] on record %d: %r then %r (first pass %r)"
                                % (src, form, i, m1, m2, results[i]))
        for order_name, order in (("forward", list(range(len(plain)))), ("reverse", list(range(len(plain)))[::-1]),
                                  ("permuted", list(case["perm"])[: len(plain)])):
            order = [i for i in order if i < len(plain)]
            shared = fresh(form, src)
            for i in order:
                res = impl(shared.match, plain[i])
                if not res.ok:
                    raise Violation("purity/history-dependent-exception",
                                    "%s [%s]: reused selector raised %r on record %d in %s order"
                                    % (src, form, res, i, order_name))
                if bool(res.value) != results[i]:
                    raise Violation("purity/history-dependent", "%s [%s]: reused selector gives %r for record %d in %s "
                                    "order, a fresh selector gives %r" % (src, form, res.value, i, order_name, results[i]))
    finally:
        shutil.rmtree(tmp, ignore_errors=True)


def empty_selector_cases(tier):
    return [{"adapter": a, "form": f} for a in ("stream", "jsonfile", "csvfile", "sqlite", "avro")
            for f in ("none", "empty-text", "Selector('')", "CompiledSelector('')", "CompiledSelector(None)")]


def check_empty_selector(case, ctx):
    """No selector / an empty selector keeps every record, for every reader."""
    from flow.record import RecordDescriptor, RecordReader, RecordWriter
    from flow.record.selector import CompiledSelector, Selector

    d1 = RecordDescriptor("sel/rec", FIELDS)
    records = [d1("s%d" % i, "t", None, i, i * 2, 0.5, bool(i % 2), i, _generated=selgen.GEN) for i in range(4)]
    ctx.nontriv()
    ctx.cls("adapter:" + case["adapter"], "form:" + case["form"])
    tmp = ctx.fresh_dir()
    try:
        url = url_for(case["adapter"], tmp)
        w = RecordWriter(url)
        for r in records:
            w.write(r)
        w.flush()
        w.close()
        sel = {"none": None, "empty-text": "", "Selector('')": Selector(""), "CompiledSelector('')": CompiledSelector(""),
               "CompiledSelector(None)": CompiledSelector(None)}[case["form"]]
        plain, e0 = iterate(lambda: RecordReader(url))
        got, e1 = iterate(lambda: RecordReader(url, selector=sel))
        if e0 is not None or e1 is not None:
            raise Violation("empty-selector/raised", "%r / %r" % (e0, e1))
        if [observe(r) for r in got] != [observe(r) for r in plain] or len(got) != len(records):
            raise Violation("empty-selector/filters", "%s with selector %s yields %d of %d records"
                            % (case["adapter"], case["form"], len(got), len(records)), detail=case["form"])
    finally:
        shutil.rmtree(tmp, ignore_errors=True)


def parts(tier):
    return [Part("readers", check, strategy=case_strategy(), examples=(400, 6000)),
            Part("empty-selector", check_empty_selector, cases=empty_selector_cases, exhaustive=True)]
