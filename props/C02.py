"""C02 - Written bytes conform to the frozen RecordStream wire format."""
import gzip
import io
import json
import os

from hypothesis import strategies as st

from props import C01
from vlib import caseio, gen, refcodec
from vlib.observe import diff
from vlib.runner import VERIF, Part, Violation, impl

LEVEL = "exploration"
RULE = (
    "(a) generated record sequences encoded by the implementation and decoded strictly by /verif's independent codec "
    "(own msgpack subset, own SHA-256 identifier, DESC-before-REC) and compared as typed models; (b) the same models "
    "encoded by the reference codec with format-permitted variation (non-minimal msgpack widths, float32, ISO form "
    "of UTC timestamps, records without version, extra trailing reserved values, bare-name identifiers, repeated "
    "descriptor/header frames) and decoded by the implementation; (c) a frozen golden corpus written at the pinned "
    "revision. Non-trivial = stream with >=1 record frame; distinct by case digest."
    " Also: streams of 257 ... 66 000 record types each announced once (both directions), and streams written while some writes were refused (decoded by the reference codec)."
)
ASSUMPTIONS = [
    "per-type value encodings are frozen as observed at the pinned revision (golden corpus is the authority)",
    "byte identity with golden files is not demanded: other valid msgpack encodings conform",
    "compatibility variants are applied to plain records only (grouped members get none in the reader)",
]

VARIANTS = [None, None, None, "no-version", "extra-reserved-1", "extra-reserved-2", "bare-name"]


def _models(records):
    return [refcodec.record_model(r) for r in records]


def _first_diff_sig(a, b):
    """Signature from two record models: the declared type of the first differing field."""
    if a[0] == "grouped" and b[0] == "grouped":
        if a[1] != b[1] or len(a[2]) != len(b[2]):
            return "grouped-shape"
        for x, y in zip(a[2], b[2]):
            if x != y:
                return _first_diff_sig(x, y)
    if a[0] != "record" or b[0] != "record":
        return "kind"
    if a[1] != b[1] or a[2] != b[2]:
        return "descriptor"
    for (t, n), x, y in zip(a[2], a[3], b[3]):
        if x != y:
            if x[0] in ("record", "grouped") and y[0] in ("record", "grouped"):
                return _first_diff_sig(x, y)
            return "field:" + t.replace("[]", "")
    for nm, x, y in zip(("_source", "_classification", "_generated", "_version"), a[4], b[4]):
        if x != y:
            return "meta:" + nm
    return "?"


def compare_models(exp, got, where):
    if len(exp) != len(got):
        raise Violation(where + "/count", "expected %d records, got %d" % (len(exp), len(got)))
    for i, (a, b) in enumerate(zip(exp, got)):
        if a != b:
            raise Violation("%s/%s" % (where, _first_diff_sig(a, b)), "record %d: %s" % (i, diff(a, b)))


def build_records(seq, ctx):
    built = impl(lambda: [gen.build_any_record(m) for m in seq])
    if not built.ok:
        ctx.cls("discarded:constructor-raised:" + built.type)
        return None
    # every record is of the type it was created with - whatever other types were defined after it (the expected
    # models below are taken from the records, so this must hold independently)
    for m, r in zip(seq, built.value):
        if m.kind == "plain":
            want = (m.p["desc"][0], tuple(tuple(f) for f in m.p["desc"][1]))
            have = (r._desc.name, tuple(tuple(f) for f in r._desc.get_field_tuples()))
            if have != want:
                raise Violation("record-reports-another-type", "a record created with %r says it is of type %r once the other "
                                "records of the sequence have been created" % (want, have))
    return built.value


def write_impl(records):
    from flow.record import RecordStreamWriter

    class Keep(io.BytesIO):
        def close(self):
            pass

    fp = Keep()
    w = RecordStreamWriter(fp)
    for r in records:
        w.write(r)
    w.flush()
    return fp.getvalue()


def check_impl_to_ref(case, ctx):
    seq = case["seq"]
    records = build_records(seq, ctx)
    if records is None:
        return
    labels = set()
    for m in seq:
        gen.classify_any(m, labels)
    ctx.cls(*labels)
    if records:
        ctx.nontriv()
    exp = impl(_models, records)
    if not exp.ok:
        raise RuntimeError("harness: cannot model written records: %r" % (exp,))
    res = impl(write_impl, records)
    if not res.ok:
        raise Violation("impl->ref/write-raised/" + res.type, "writer raised %r" % (res,))
    data = res.value
    try:
        events, got = refcodec.decode_stream(data)
    except refcodec.FormatError as e:
        raise Violation("impl->ref/format/" + str(e).split(" ")[0][:30], "reference decoder rejects stream: %s" % e)
    kinds = {e.kind for e in events}
    ctx.cls(*("frame:" + k for k in kinds))
    compare_models(exp.value, got, "impl->ref")


@st.composite
def ref_case(draw):
    seq = draw(gen.sequence_spec(max_len=6))
    return {
        "seq": seq,
        "widths": draw(st.lists(st.integers(0, 3), min_size=1, max_size=12)),
        "variants": [draw(st.sampled_from(range(len(VARIANTS)))) for _ in seq],
        "repeat_desc": draw(st.lists(st.integers(0, 6), max_size=2)),
        "repeat_header": draw(st.lists(st.integers(0, 6), max_size=1)),
        "bin_names": draw(st.sampled_from([False, False, False, True])),
    }


def _all_names(models):
    out = []
    for m in models:
        refcodec.model_descriptors(m, out)
    return out


def _has_nested(m):
    return any(isinstance(x, tuple) and x and (x[0] in ("record", "grouped") or (x[0] == "list" and any(
        isinstance(e, tuple) and e and e[0] in ("record", "grouped") for e in x[1]))) for x in m[3])


def check_ref_to_impl(case, ctx):
    from flow.record import RecordStreamReader

    seq = case["seq"]
    records = build_records(seq, ctx)
    if records is None:
        return
    exp = _models(records)
    descs = _all_names(exp)
    unique_names = len({d[0] for d in descs}) == len(descs)
    variants = []
    for i, m in enumerate(exp):
        v = VARIANTS[case["variants"][i]]
        if v == "bare-name" and not unique_names:
            v = None
        if m[0] != "record":
            v = None
        variants.append(v)
    for v in variants:
        ctx.cls("variant:%s" % v)
    if case["widths"] != [0]:
        ctx.cls("widths:non-minimal")
    bin_names = bool(case.get("bin_names")) and not any(m[0] == "grouped" or _has_nested(m) for m in exp)
    if bin_names:
        ctx.cls("variant:names-as-bin")
    data = refcodec.encode_stream(exp, case["widths"], variants, set(case["repeat_desc"]), set(case["repeat_header"]),
                                  bin_names)
    # self-check of the harness: the reference decoder must accept what the reference encoder wrote
    # (only for variant-free streams, the strict decoder models writer output)
    if records:
        ctx.nontriv()
    def consume():
        # read like a consumer does: every record is used (printed, turned into a dict, its type's field table looked
        # at - what the csv / line / sqlite writers do) before the next one is pulled from the stream
        out = []
        for r in RecordStreamReader(io.BytesIO(data)):
            out.append(r)
            if hasattr(r, "_desc"):
                r._desc.get_all_fields()
                r._desc.getfields("string")
                r._asdict()
                repr(r)
        return out

    res = impl(consume)
    if not res.ok:
        vs = sorted({str(v) for v in variants})
        raise Violation("ref->impl/read-raised/%s" % res.type, "reader raised %r (variants %s)" % (res, vs))
    got = impl(_models, res.value)
    if not got.ok:
        raise Violation("ref->impl/unmodelable/" + got.type, "records read back cannot be modelled: %r" % (got,))
    compare_models(exp, got.value, "ref->impl")


GOLDEN = os.path.join(VERIF, "corpus", "golden")


def golden_cases(tier):
    if not os.path.isdir(GOLDEN):
        return []
    return sorted(f for f in os.listdir(GOLDEN) if f.endswith((".records", ".records.gz")))


def check_golden(fname, ctx):
    from flow.record import RecordReader

    path = os.path.join(GOLDEN, fname)
    with open(path.replace(".records.gz", ".expected.json").replace(".records", ".expected.json")) as f:
        exp = caseio.dec(json.load(f))
    exp = [_tuplify(m) for m in exp]

    def read():
        rd = RecordReader(path)
        try:
            return list(rd)
        finally:
            rd.close()

    res = impl(read)
    if not res.ok:
        raise Violation("golden/read-raised/" + res.type, "%s: reader raised %r" % (fname, res))
    got = impl(_models, res.value)
    if not got.ok:
        raise Violation("golden/unmodelable/" + got.type, "%s: %r" % (fname, got))
    ctx.count(len(exp))
    ctx.nontriv()
    ctx.cls("golden-file", "golden-gz" if fname.endswith(".gz") else "golden-plain")
    compare_models(exp, got.value, "golden")
    # the reference decoder must agree with the frozen expectation too (guards the oracle itself)
    raw = open(path, "rb").read()
    if fname.endswith(".gz"):
        raw = gzip.decompress(raw)
    _, ref = refcodec.decode_stream(raw)
    if ref != exp:
        raise RuntimeError("harness: reference decoder disagrees with golden expectation for %s" % fname)


def _tuplify(x):
    if isinstance(x, list):
        return tuple(_tuplify(e) for e in x)
    if isinstance(x, tuple):
        return tuple(_tuplify(e) for e in x)
    return x


LARGE = [2**20, 2**24 - 64, 2**24, 2**24 + 1, 3 * 2**23, 2**25 + 5]


def large_cases(tier):
    sizes = LARGE if tier == "thorough" else LARGE[:5]
    return [{"size": n, "direction": d} for n in sizes for d in ("impl->ref", "ref->impl")]


def check_large_frame(case, ctx):
    """The frame length is a 32-bit count: frames of many megabytes conform and must be written and read."""
    from flow.record import RecordDescriptor, RecordStreamReader

    n, direction = case["size"], case["direction"]
    ctx.nontriv()
    ctx.cls("frame-bytes:%d" % n, "direction:" + direction)
    desc = RecordDescriptor("t/large", [("bytes", "blob"), ("varint", "i")])
    import datetime as _d

    g = _d.datetime(2020, 1, 1, tzinfo=_d.timezone.utc)
    blob = (b"0123456789abcdef" * (n // 16 + 1))[:n]
    recs = [desc(b"small", 0, _generated=g), desc(blob, 1, _generated=g), desc(b"after", 2, _generated=g)]
    exp = _models(recs)
    if direction == "impl->ref":
        data = impl(write_impl, recs)
        if not data.ok:
            raise Violation("large-frame/write-raised", "%d-byte field: %r" % (n, data), detail=data.type)
        try:
            _, got = refcodec.decode_stream(data.value)
        except refcodec.FormatError as e:
            raise Violation("large-frame/format", "reference decoder rejects a %d-byte frame: %s" % (n, e))
        compare_models(exp, got, "large-frame/impl->ref")
    else:
        data = refcodec.encode_stream(exp)
        res = impl(lambda: list(RecordStreamReader(io.BytesIO(data))))
        if not res.ok:
            raise Violation("large-frame/read-raised", "a conforming stream with a %d-byte frame is refused: %r" % (n, res),
                            detail=res.type)
        compare_models(exp, _models(res.value), "large-frame/ref->impl")


def check_refused_writes(case, ctx):
    """A record the packer cannot serialise makes write() raise; the caller catches that and keeps writing. What is on
    disk afterwards is still an instance of the format: the reference codec decodes it (every record frame preceded by
    its definition) to exactly the records whose write() returned."""
    from flow.record import RecordStreamWriter
    from props.C01 import _poisoned

    seq = [(m, False) for m in case["seq"]]
    for pos, j in sorted(case["refused"], key=lambda x: -x[0]):
        seq.insert(pos, (_poisoned(case["seq"][j]), True))
    built = impl(lambda: [gen.build_any_record(m) for m, _ in seq])
    if not built.ok:
        ctx.cls("discarded:constructor-raised:" + built.type)
        return
    fp = io.BytesIO()
    w = RecordStreamWriter(fp)
    written = []
    for (m, poison), r in zip(seq, built.value):
        res = impl(w.write, r)
        if poison and res.ok:
            ctx.cls("discarded:unserialisable-record-was-accepted")
            return
        if not poison:
            if not res.ok:
                raise Violation("refused-writes/good-write-raised/" + res.type, "write of a serialisable record raised %r" % (res,))
            written.append(r)
    impl(w.flush)
    data = fp.getvalue()
    ctx.cls("refused:%d" % len(case["refused"]))
    if written:
        ctx.nontriv()
    exp = impl(_models, written)
    if not exp.ok:
        raise RuntimeError("harness: cannot model written records: %r" % (exp,))
    try:
        _, got = refcodec.decode_stream(data)
    except refcodec.FormatError as e:
        raise Violation("refused-writes/format/" + str(e).split(" ")[0][:30], "after a refused write the reference decoder rejects "
                        "the stream: %s" % e)
    compare_models(exp.value, got, "refused-writes/impl->ref")


def many_type_cases(tier):
    ns = [257, 300, 1100, 4200] if tier != "thorough" else [257, 300, 1100, 4200, 17000, 66000]
    return [{"types": n, "direction": d} for n in ns for d in ("impl->ref", "ref->impl")]


def check_many_types(case, ctx):
    """The format announces a record type ONCE per stream and has no limit on the number of types: a stream with N
    types, each announced once, in which the earliest types come back after all the others, conforms - and is what a
    merge of many sources looks like. Whatever bookkeeping writer and reader keep per type must not forget one."""
    import datetime as _d

    from flow.record import RecordDescriptor, RecordStreamReader

    n, direction = case["types"], case["direction"]
    ctx.nontriv()
    ctx.cls("types:%d" % n, "direction:" + direction)
    g = _d.datetime(2020, 1, 1, tzinfo=_d.timezone.utc)
    descs = [RecordDescriptor("many/t%d" % i, [("varint", "n"), ("string", "s%d" % (i % 7))]) for i in range(n)]
    recs = [d(i, "v", _generated=g) for i, d in enumerate(descs)]
    recs += [descs[i](n + i, "again", _generated=g) for i in (0, 1, 2, n // 2, n - 1, 0)]
    exp = _models(recs)
    if direction == "impl->ref":
        data = impl(write_impl, recs)
        if not data.ok:
            raise Violation("many-types/write-raised", "%d types: %r" % (n, data), detail=data.type)
        try:
            _, got = refcodec.decode_stream(data.value)
        except refcodec.FormatError as e:
            raise Violation("many-types/format", "reference decoder rejects the stream of %d types: %s" % (n, e))
        compare_models(exp, got, "many-types/impl->ref")
    else:
        data = refcodec.encode_stream(exp)
        res = impl(lambda: list(RecordStreamReader(io.BytesIO(data))))
        if not res.ok:
            raise Violation("many-types/read-raised", "a conforming stream of %d types, each announced once, is refused: %r"
                            % (n, res), detail=res.type)
        compare_models(exp, _models(res.value), "many-types/ref->impl")


def colliding_cases(tier):
    """Two generations of one type name whose identifiers (name + 32-bit hash over the concatenated field names and
    types) coincide: 'no'+'wstring' == 'now'+'string'.  The stream must say which definition each record uses."""
    import datetime as _d
    import itertools

    g = _d.datetime(2020, 1, 1, tzinfo=_d.timezone.utc)
    pairs = [
        (("t/coll", (("wstring", "no"), ("varint", "id"))), ("t/coll", (("string", "now"), ("varint", "id")))),
        (("t/coll2", (("wstring", "x"), ("stringlist", "b"))), ("t/coll2", (("string", "xw"), ("stringlist", "b")))),
    ]
    # two type names that become the same Python identifier ('/' is turned into '_') with identical field lists
    pairs += [
        (("demo/file_entry", (("string", "no"), ("varint", "id"))), ("demo_file/entry", (("string", "no"), ("varint", "id")))),
        (("fs/ntfs/mft", (("string", "no"), ("varint", "id"))), ("fs/ntfs_mft", (("string", "no"), ("varint", "id")))),
    ]
    cases = []
    for A, B in pairs:
        for order in itertools.product("AB", repeat=3):
            if len(set(order)) < 2:
                continue
            seq = []
            for i, o in enumerate(order):
                d = A if o == "A" else B
                vals = ["v%d" % i, (i if d[1][1][0] == "varint" else (["x%d" % i] if d[1][1][0] == "stringlist" else "w%d" % i))]
                seq.append(gen.M("plain", {"desc": d, "vals": vals, "src": None, "cls": None, "gen": g}))
            cases.append({"seq": seq})
    return cases


def colliding_ref_cases(tier):
    # (read direction: the reference encoder re-announces a definition whenever another one has been announced under
    # the same identifier since, so these streams say unambiguously which definition every record uses)
    return [dict(c, widths=[0], variants=[0] * len(c["seq"]), repeat_desc=[], repeat_header=[], bin_names=False)
            for c in colliding_cases(tier)]


def _refused_case():
    from props.C01 import refused_write_case

    return refused_write_case()


def parts(tier):
    return [
        Part("impl-to-ref", check_impl_to_ref, strategy=st.fixed_dictionaries({"seq": gen.sequence_spec()}),
             examples=(150, 3000)),
        Part("impl-to-ref-focused", check_impl_to_ref,
             strategy=C01.focused_strategy().map(lambda c: {"seq": c["seq"]}), examples=(150, 3000)),
        Part("ref-to-impl", check_ref_to_impl, strategy=ref_case(), examples=(200, 3000)),
        Part("colliding-descriptors", check_impl_to_ref, cases=colliding_cases, exhaustive=True),
        Part("colliding-descriptors-read", check_ref_to_impl, cases=colliding_ref_cases, exhaustive=True),
        Part("golden", check_golden, cases=golden_cases, exhaustive=True),
        Part("large-frames", check_large_frame, cases=large_cases, exhaustive=True),
        Part("many-types", check_many_types, cases=many_type_cases, exhaustive=True),
        Part("refused-writes", check_refused_writes, strategy=_refused_case(), examples=(60, 1500)),
    ]
