"""C03 - Every record is decoded with the descriptor it was written with."""
import io
import itertools
import json
import os
import shutil

from hypothesis import strategies as st

from vlib import gen, refcodec
from vlib.caseio import M
from vlib.observe import diff, observe
from vlib.runner import Part, Violation, impl

LEVEL = "exploration"
RULE = (
    "Write histories (writer index, record) over descriptor pools that contain unrelated types, same-name/different-"
    "field pairs, identifier-colliding pairs (constructed from prefix/suffix relations between whitelisted type names), "
    "holders whose nested type occurs only nested, and grouped records; on 1-3 writers open at the same time, binary "
    "(RecordStreamWriter) and JSON lines (JsonfileWriter). Exhaustive: all histories of length <=4 over a fixed "
    "7-entry pool on one writer and length <=3 on two writers; random: length <=40 over generated pools. Oracle on the "
    "produced bytes/lines (reference codec / json): every record, nested and grouped member is preceded in the same "
    "stream by a descriptor with its identifier, and the most recent one is exactly the record's (name, fields); and "
    "the implementation reader returns each record with its original descriptor (binary: equal deep observation). "
    "Non-trivial = history with >=2 distinct descriptors and a return to an earlier one."
)
ASSUMPTIONS = [
    "32-bit hash collisions between unrelated names are not searched; only structural collisions are constructed",
    "JSON histories use JSON-representable field types only (value fidelity is C14)",
]

# ---------------------------------------------------------------------------------------------
# fixed pool for the exhaustive part: entries are record builders index -> spec (M)

GEN = __import__("datetime").datetime(2020, 1, 2, 3, 4, 5, 6, tzinfo=__import__("datetime").timezone.utc)


def _rec(name, fields, vals):
    return {"desc": (name, tuple(fields)), "vals": list(vals), "src": None, "cls": None, "gen": GEN}


def fixed_pool(i, n):
    """Entry i of the fixed pool, with counter n woven into the values."""
    if i == 0:
        return M("plain", _rec("t/a", [("string", "x")], ["s%d" % n]))
    if i == 1:
        return M("plain", _rec("t/a", [("varint", "x")], [n]))
    if i == 2:
        return M("plain", _rec("t/c", [("stringlist", "a"), ("string", "b")], [["l%d" % n], "b%d" % n]))
    if i == 3:
        return M("plain", _rec("t/c", [("string", "a"), ("string", "listb")], ["a%d" % n, "lb%d" % n]))
    if i == 4:
        inner = _rec("t/n", [("uint16", "v")], [n % 65536])
        return M("plain", _rec("t/h", [("record", "inner")], [M("rec", inner)]))
    if i == 5:
        return M(
            "grp",
            {"name": "t/grp", "recs": [M("plain", _rec("t/a", [("string", "x")], ["g%d" % n])),
                                       M("plain", _rec("t/g", [("varint", "y")], [n]))]},
        )
    if i == 6:
        return M("plain", _rec("t/z", [], []))
    if i == 7:
        # a record whose serialisation fails (binary: lone surrogate cannot be encoded; JSON: integer beyond the
        # 4300-digit limit): the caller catches the error and goes on writing
        return M("plain", dict(_rec("t/p", [("string", "s"), ("varint", "n")], ["\ud800", 10**5000]), poison=True))
    if i == 8:
        return M("plain", _rec("t/p", [("string", "s"), ("varint", "n")], ["ok%d" % n, n]))
    if i == 9:
        # a second grouped record with the SAME group name and the same flattened field list as entry 5, built from a
        # different member type: the flat shape of a group does not say which member descriptors the stream needs
        return M("grp", {"name": "t/grp", "recs": [M("plain", _rec("t/gm", [("string", "x"), ("varint", "y")], ["m%d" % n, n]))]})
    raise IndexError(i)


POOL_N = 10


def exhaustive_cases(tier):
    cases = []
    for kind in ("binary", "json"):
        for ln in range(1, 5):
            for h in itertools.product(range(POOL_N), repeat=ln):
                if ln == 4 and 9 in h and 5 not in h:
                    continue  # (the shape twin matters next to the grouped record it resembles)
                cases.append({"kind": kind, "writers": 1, "hist": [(0, i) for i in h], "fixed": True})
        for ln in range(1, 4):
            for h in itertools.product(range(7), repeat=ln):
                for ws in itertools.product(range(2), repeat=ln):
                    if 1 not in ws:
                        continue
                    cases.append({"kind": kind, "writers": 2, "hist": list(zip(ws, h)), "fixed": True})
    return cases


# ---------------------------------------------------------------------------------------------
# expected descriptors of a spec


def spec_descs(m, out):
    """All (name, fields) a record needs: nested first. For grouped: members (flattened like the
    implementation does: nested groups contribute their members)."""
    if m.kind == "grp":
        for x in m.p["recs"]:
            spec_descs(x, out)
        return
    spec = m.p
    for (t, _), v in zip(spec["desc"][1], spec["vals"]):
        _walk_val(v, out)
    d = (spec["desc"][0], tuple(tuple(f) for f in spec["desc"][1]))
    out.append(d)


def _walk_val(v, out):
    if isinstance(v, M):
        if v.kind == "rec":
            spec_descs(M("plain", v.p), out)
        elif v.kind in ("plain", "grp"):
            spec_descs(v, out)
    elif isinstance(v, list):
        for x in v:
            _walk_val(x, out)


def ident_of(d):
    return (d[0], refcodec.descriptor_hash(d[0], d[1]))


# ---------------------------------------------------------------------------------------------
# stream-level oracles


def check_binary_stream(data, specs, where):
    try:
        events = refcodec.parse_events(data, strict=True)
    except refcodec.FormatError as e:
        raise Violation(where + "/format", "stream does not parse: %s" % e)
    last = {}
    recs = [e for e in events if e.kind in ("REC", "GROUPED")]
    if len(recs) != len(specs):
        raise Violation(where + "/count", "%d record frames for %d writes" % (len(recs), len(specs)))
    k = 0
    for ev in events:
        if ev.kind == "DESC":
            last[(ev.name, refcodec.descriptor_hash(ev.name, ev.fields))] = (ev.name, ev.fields)
            last[("claimed", ev.name)] = 1
        elif ev.kind in ("REC", "GROUPED"):
            need = []
            spec_descs(specs[k], need)
            collide = len({ident_of(d) for d in need}) != len(set(need))
            for d in need:
                got = last.get(ident_of(d))
                if got is None:
                    raise Violation(
                        where + "/missing-descriptor" + _kind(specs[k], d),
                        "record #%d (%s) needs descriptor %r which was not emitted before it in this stream" % (k, ev.kind, d),
                    )
                if got != d:
                    raise Violation(
                        where + ("/grouped-colliding-members" if collide else "/stale-descriptor") + _kind(specs[k], d),
                        "record #%d needs %r but the most recent descriptor with its identifier is %r" % (k, d, got),
                    )
            k += 1


def _kind(m, d):
    if m.kind == "grp":
        return "/grouped-member"
    if (m.p["desc"][0], tuple(tuple(f) for f in m.p["desc"][1])) != d:
        return "/nested"
    return ""


def check_json_stream(text, specs, descs_on, where):
    last = {}
    k = 0
    lines = [ln for ln in text.split("\n") if ln]
    nrec = 0
    for ln in lines:
        try:
            obj = json.loads(ln)
        except ValueError as e:
            raise Violation(where + "/not-json", "line is not JSON: %s" % e)
        if obj.get("_type") == "recorddescriptor":
            name, fields = obj["_data"]
            d = (name, tuple(tuple(f) for f in fields))
            last[ident_of(d)] = d
        elif obj.get("_type") == "record":
            nrec += 1
            if k >= len(specs):
                raise Violation(where + "/count", "more record lines than writes")
            ident = tuple(obj["_recorddescriptor"])
            exp = json_expected_desc(specs[k])
            if ident != ident_of(exp):
                raise Violation(where + "/wrong-identifier", "record #%d carries %r, expected %r" % (k, ident, ident_of(exp)))
            need = [exp]
            _json_nested(specs[k], need)
            for d in need:
                got = last.get(ident_of(d))
                if got is None:
                    raise Violation(where + "/missing-descriptor", "record #%d needs %r, never emitted before it" % (k, d))
                if got != d:
                    raise Violation(where + "/stale-descriptor", "record #%d needs %r, most recent is %r" % (k, d, got))
            k += 1
    if nrec != len(specs):
        raise Violation(where + "/count", "%d record lines for %d writes" % (nrec, len(specs)))


def json_expected_desc(m):
    """JSON flattens a grouped record into its flat descriptor."""
    if m.kind == "plain":
        return (m.p["desc"][0], tuple(tuple(f) for f in m.p["desc"][1]))
    seen = []
    fields = []

    def walk(x):
        if x.kind == "grp":
            for y in x.p["recs"]:
                walk(y)
            return
        for t, n in x.p["desc"][1]:
            if n not in seen:
                seen.append(n)
                fields.append((t, n))

    walk(m)
    return (m.p["name"], tuple(fields))


def _json_nested(m, out):
    if m.kind == "grp":
        return
    for (t, _), v in zip(m.p["desc"][1], m.p["vals"]):
        if isinstance(v, M) and v.kind == "rec":
            spec_descs(M("plain", v.p), out)
        elif isinstance(v, list):
            for x in v:
                if isinstance(x, M) and x.kind == "rec":
                    spec_descs(M("plain", x.p), out)


# ---------------------------------------------------------------------------------------------


GROUPED_ATTRS = {"name", "records", "descriptors", "flat_fields", "fieldname_to_record"}


def _grouped_attr_collision(m):
    if m.kind != "grp":
        return False
    for x in m.p["recs"]:
        if x.kind == "grp":
            if _grouped_attr_collision(x):
                return True
        elif any(n in GROUPED_ATTRS for _, n in x.p["desc"][1]):
            return True
    return False


class KeepBytes(io.BytesIO):
    def close(self):
        pass


class KeepText(io.StringIO):
    def close(self):
        pass


def run_history(case, ctx):
    from flow.record import RecordStreamReader, RecordStreamWriter
    from flow.record.adapter.jsonfile import JsonfileReader, JsonfileWriter

    kind = case["kind"]
    nw = case["writers"]
    hist = case["hist"]
    if case.get("fixed"):
        specs = [(w, fixed_pool(i, n)) for n, (w, i) in enumerate(hist)]
    else:
        specs = [(w, m) for w, m in hist]
    if kind == "json" and any(_grouped_attr_collision(m) for _, m in specs):
        # GroupedRecord's own attributes (name, records, ...) shadow member fields of the same name when a
        # grouped record is flattened for JSON; that is tracked under C15 (known finding), not a descriptor matter
        ctx.cls("skipped:grouped-attribute-collision")
        return
    built = impl(lambda: [gen.build_any_record(m) for _, m in specs])
    if not built.ok:
        ctx.cls("discarded:constructor-raised:" + built.type)
        return
    records = built.value

    # classification
    dl = []
    for _, m in specs:
        need = []
        spec_descs(m, need)
        top = need[-1] if m.kind == "plain" else ("grouped:" + m.p["name"],)
        dl.append(top)
        if m.kind == "grp":
            ctx.cls("grouped")
        elif len(need) > 1:
            ctx.cls("nested-only-holder")
    distinct = []
    returned = False
    for d in dl:
        if d in distinct:
            if distinct[-1] != d:
                returned = True
        distinct.append(d)
    alld = []
    for _, m in specs:
        spec_descs(m, alld)
    names = {}
    for d in set(alld):
        names.setdefault(d[0], set()).add(d)
    if any(len(v) > 1 for v in names.values()):
        ctx.cls("same-name-pair")
    idents = {}
    for d in set(alld):
        idents.setdefault(ident_of(d), set()).add(d)
    if any(len(v) > 1 for v in idents.values()):
        ctx.cls("colliding-pair")
    if nw > 1 and len({w for w, _ in specs}) > 1:
        ctx.cls("multi-writer")
    ctx.cls("kind:" + kind, "len:%d" % min(len(hist), 10))
    if len(set(dl)) >= 2 and returned:
        ctx.nontriv()

    if kind == "binary":
        fps = [KeepBytes() for _ in range(nw)]
        ws = [RecordStreamWriter(fp) for fp in fps]
    else:
        fps = [KeepText() for _ in range(nw)]
        ws = [JsonfileWriter(fp) for fp in fps]
    failed = set()
    for k, ((w, m), r) in enumerate(zip(specs, records)):
        res = impl(ws[w].write, r)
        if not res.ok:
            if m.kind == "plain" and m.p.get("poison"):
                failed.add(k)  # the caller catches the error and keeps using the writer
                ctx.cls("write-raised-and-caller-continued")
                continue
            raise Violation("%s/write-raised/%s" % (kind, res.type), "write raised %r" % (res,))
        if m.kind == "plain" and m.p.get("poison"):
            # (an implementation that can serialise it after all: the history has no refused write, nothing to judge)
            ctx.cls("abandoned:unserialisable-record-accepted")
            return
    if failed:
        specs = [x for k, x in enumerate(specs) if k not in failed]
        records = [x for k, x in enumerate(records) if k not in failed]
    for w in ws:
        impl(w.flush)
    for wi in range(nw):
        mine = [m for (w, m) in specs if w == wi]
        mine_recs = [r for (w, _), r in zip(specs, records) if w == wi]
        where = kind
        if kind == "binary":
            data = fps[wi].getvalue()
            if not mine and not data:
                continue
            check_binary_stream(data, mine, where)
            res = impl(lambda: list(RecordStreamReader(io.BytesIO(data))))
        else:
            text = fps[wi].getvalue()
            check_json_stream(text, mine, True, where)
            jd = ctx.fresh_dir()
            jp = os.path.join(jd, "h.json")
            with open(jp, "w") as f:
                f.write(text)

            def _read():
                rd = JsonfileReader(jp)
                try:
                    return list(rd)
                finally:
                    rd.close()

            res = impl(_read)
            shutil.rmtree(jd, ignore_errors=True)
        if not res.ok:
            raise Violation("%s/read-raised/%s" % (kind, res.type), "reader raised %r" % (res,))
        got = res.value
        if len(got) != len(mine_recs):
            raise Violation("%s/read-count" % kind, "wrote %d, read %d" % (len(mine_recs), len(got)))
        for i, (a, b) in enumerate(zip(mine_recs, got)):
            da = (a._desc.name, tuple(a._desc.get_field_tuples()))
            db = (b._desc.name, tuple(b._desc.get_field_tuples()))
            if da != db:
                raise Violation(
                    "%s/read-descriptor%s" % (kind, "/grouped" if mine[i].kind == "grp" else ""),
                    "record #%d written with %r read back with %r" % (i, da, db),
                )
            if kind == "binary":
                oa, ob = observe(a), observe(b)
                if oa != ob:
                    raise Violation("binary/read-values", "record #%d differs: %s" % (i, diff(oa, ob)))

    # the same record OBJECTS exported once more, to a writer opened afterwards (tee / re-export): that stream has
    # to be self-describing too, whatever the first export left behind on the objects
    if records:
        ctx.cls("re-exported-to-later-writer")
        all_specs = [m for _, m in specs]
        if kind == "binary":
            fp2 = KeepBytes()
            w2 = RecordStreamWriter(fp2)
        else:
            fp2 = KeepText()
            w2 = JsonfileWriter(fp2)
        for r in records:
            res = impl(w2.write, r)
            if not res.ok:
                raise Violation("%s/re-export/write-raised/%s" % (kind, res.type), "second writer: write raised %r" % (res,))
        impl(w2.flush)
        if kind == "binary":
            check_binary_stream(fp2.getvalue(), all_specs, "binary/re-export")
        else:
            check_json_stream(fp2.getvalue(), all_specs, True, "json/re-export")


def many_descriptor_cases(tier):
    return [{"n": n, "kind": k, "same_name": sn} for n in (300, 600, 1100, 2100) for k in ("binary", "json") for sn in (False, True)
            if not (k == "json" and n > 1100)]


def check_many_descriptors(case, ctx):
    """A long-running stream with many record types: a type announced once stays known however many other types
    follow, so a later record of an early type is read back like the first."""
    import datetime as _d

    from flow.record import RecordDescriptor, RecordStreamReader, RecordStreamWriter
    from flow.record.adapter.jsonfile import JsonfileReader, JsonfileWriter

    n, kind = case["n"], case["kind"]
    g = _d.datetime(2020, 1, 1, tzinfo=_d.timezone.utc)
    ctx.nontriv()
    ctx.cls("descriptors:%d" % n, "kind:" + kind, "same-name:%s" % case["same_name"])
    descs = []
    for i in range(n):
        name = "many/t" if case["same_name"] else "many/t%d" % i
        descs.append(RecordDescriptor(name, [("string", "s"), ("varint", "f%d" % i)]))
    order = list(range(n)) + [0, 1, n // 2, n - 1, 0]
    recs = [descs[i]("v%d" % k, k, _generated=g) for k, i in enumerate(order)]
    want = [(r._desc.name, tuple(r._desc.get_field_tuples()), int(getattr(r, r._desc.get_field_tuples()[1][1]))) for r in recs]
    if kind == "binary":
        fp = KeepBytes()
        w = RecordStreamWriter(fp)
    else:
        fp = KeepText()
        w = JsonfileWriter(fp)
    for r in recs:
        res = impl(w.write, r)
        if not res.ok:
            raise Violation("%s/many-descriptors/write-raised" % kind, "%r" % (res,), detail=res.type)
    impl(w.flush)
    if kind == "binary":
        data = fp.getvalue()
        got = impl(lambda: list(RecordStreamReader(io.BytesIO(data))))
    else:
        d = ctx.fresh_dir()
        jp = os.path.join(d, "m.json")
        with open(jp, "w") as f:
            f.write(fp.getvalue())

        def _rd():
            rd = JsonfileReader(jp)
            try:
                return list(rd)
            finally:
                rd.close()

        got = impl(_rd)
        shutil.rmtree(d, ignore_errors=True)
    if not got.ok:
        raise Violation("%s/many-descriptors/read-raised" % kind, "stream with %d record types: reader raised %r" % (n, got),
                        detail=got.type)
    have = [(r._desc.name, tuple(r._desc.get_field_tuples()), int(getattr(r, r._desc.get_field_tuples()[1][1]))) for r in got.value]
    if have != want:
        k = next((k for k, (a, b) in enumerate(zip(have, want)) if a != b), min(len(have), len(want)))
        raise Violation("%s/many-descriptors/records-differ" % kind, "stream with %d record types: %d records read, %d written; "
                        "first difference at #%d" % (n, len(have), len(want), k))


# ---------------------------------------------------------------------------------------------
# random histories

JSON_TYPES = ["string", "varint", "stringlist", "boolean", "float", "uint16", "string[]", "varint[]", "record"]
BIN_TYPES = [t for t in gen.ALL_TYPES]


@st.composite
def pool_strategy(draw, types):
    pool = draw(st.lists(gen.descriptor_spec(0, types, max_fields=3), min_size=1, max_size=3))
    # same-name pair
    base = draw(gen.type_name())
    f = draw(gen.ident(4))
    pool.append((base, (("string", f),)))
    pool.append((base, (("varint", f),)))
    # colliding pairs (structural)
    cname = draw(gen.type_name())
    a, b = draw(gen.ident(3)), draw(gen.ident(3))
    fam = draw(st.integers(0, 2))
    if fam == 0 or "wstring" not in types:
        pool.append((cname, (("stringlist", a), ("string", b))))
        pool.append((cname, (("string", a), ("string", "list" + b))))
    elif fam == 1:
        pool.append((cname, (("wstring", a),)))
        pool.append((cname, (("string", a + "w"),)))
    else:
        pool.append((cname, (("wstring[]", a),)))
        pool.append((cname, (("string[]", a + "w"),)))
    return pool


def _norm(d):
    return (d[0], tuple(tuple(f) for f in d[1]))


@st.composite
def random_case(draw):
    kind = draw(st.sampled_from(["binary", "binary", "json"]))
    types = BIN_TYPES if kind == "binary" else JSON_TYPES
    pool = draw(pool_strategy(types))
    nw = draw(st.integers(1, 3))
    n = draw(st.integers(2, 40 if kind == "binary" else 25))
    hist = []
    # "shape twins": groupings of different member types under one group name that flatten to the same field list
    # (whole / split in two / whole plus a fully shadowed part)
    tw_types = [t for t in ("string", "varint", "boolean", "uint16") if t in types]
    tw_fields = tuple((draw(st.sampled_from(tw_types)), "tw%d" % i) for i in range(draw(st.integers(2, 3))))
    tw_cut = draw(st.integers(1, len(tw_fields) - 1))
    tw_base = draw(gen.type_name())
    tw_whole = (tw_base, tw_fields)
    tw_left = (tw_base if draw(st.booleans()) else tw_base + "/l", tw_fields[:tw_cut])
    tw_right = (tw_base + "/r", tw_fields[tw_cut:])
    tw_group = draw(gen.type_name())
    tw_variants = [[tw_whole], [tw_left, tw_right], [tw_whole, tw_right], [tw_left, tw_right, tw_whole]]
    for _ in range(n):
        w = draw(st.integers(0, nw - 1))
        k = draw(st.integers(0, 14))
        if k == 1 or (k == 2 and hist and hist[-1][1].kind == "grp"):
            ms = [M("plain", draw(gen.record_spec(1, desc=d, types=types))) for d in draw(st.sampled_from(tw_variants))]
            hist.append((w, M("grp", {"name": tw_group, "recs": ms})))
        elif k == 0:
            ms = []
            allow_collision = draw(st.integers(0, 9)) == 0
            for _ in range(draw(st.integers(2, 3))):
                d = pool[draw(st.integers(0, len(pool) - 1))]
                if not allow_collision and any(ident_of(_norm(x.p["desc"])) == ident_of(_norm(d)) and
                                               _norm(x.p["desc"]) != _norm(d) for x in ms):
                    continue  # one grouped record with colliding members is the listed known finding
                ms.append(M("plain", draw(gen.record_spec(1, desc=d, types=types))))
            hist.append((w, M("grp", {"name": draw(gen.type_name()), "recs": ms})))
        else:
            d = pool[draw(st.integers(0, len(pool) - 1))]
            hist.append((w, M("plain", draw(gen.record_spec(1, desc=d, types=types)))))
    return {"kind": kind, "writers": nw, "hist": hist, "fixed": False}


def parts(tier):
    return [
        Part("histories-exhaustive", run_history, cases=exhaustive_cases, exhaustive=True),
        Part("many-descriptors", check_many_descriptors, cases=many_descriptor_cases, exhaustive=True),
        Part("histories-random", run_history, strategy=random_case(), examples=(60, 1200)),
    ]
