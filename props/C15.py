"""C15 - Record composition follows the documented precedence rules."""
import datetime as _d

from hypothesis import strategies as st

from vlib import gen
from vlib.observe import diff, observe
from vlib.runner import Part, Violation, impl

LEVEL = "exploration"
RULE = (
    "1-4 generated records over descriptors drawn from a SMALL name pool (a b c x ts ts_description) so that names "
    "overlap, with differing types per name; operations: extend_record / merge_record_descriptors with replace in "
    "{False, True} and optional rename; iter_timestamped_records over records with 0-4 datetime fields in any "
    "position and under any name incl. 'ts' and 'ts_description'; GroupedRecord of 2-4 members (incl. a nested "
    "group); _replace, init_from_dict / init_from_record, RecordFieldRewriter(fields, exclude). Oracle: a "
    "dictionary-based reference model in /verif (ordered field list, type and value provenance first/last wins, "
    "originals' deep observations unchanged). Non-trivial = >=2 records sharing >=1 field name, or >=2 datetime "
    "fields; distinct by case digest."
    " Also: assignments to the copy / the original after a grouped _replace, records that already look expanded (datetime ts, string ts_description first), Python-keyword field names."
)
ASSUMPTIONS = [
    "metadata fields of composed records are not constrained beyond what the statement says (non-metadata fields)",
]

UTC = _d.timezone.utc
NAMES = ["a", "b", "c", "x", "ts", "ts_description", "name", "from", "class"]  # (two Python keywords: such types use the keyword-argument class template)
GROUPED_ATTRS = {"name", "records", "descriptors", "flat_fields"}
TYPES = ["string", "varint", "datetime", "boolean", "stringlist", "datetime"]
GEN = _d.datetime(2019, 9, 9, 9, 9, 9, tzinfo=UTC)


def value_of(t):
    if t == "string":
        return st.one_of(st.none(), st.sampled_from(["", "s1", "s2", "é"]))
    if t == "varint":
        return st.one_of(st.none(), st.integers(-5, 5))
    if t == "datetime":
        return st.one_of(st.none(), st.datetimes(min_value=_d.datetime(2000, 1, 1), max_value=_d.datetime(2030, 1, 1)).map(
            lambda d: d.replace(tzinfo=UTC)))
    if t == "boolean":
        return st.one_of(st.none(), st.booleans())
    return st.lists(st.sampled_from(["p", "q"]), max_size=2)


@st.composite
def small_record(draw, tname=None):
    n = draw(st.integers(0, 5))
    names = draw(st.permutations(NAMES))[:n]
    types = [draw(st.sampled_from(TYPES)) for _ in names]
    vals = [draw(value_of(t)) for t in types]
    return {"desc": (tname or draw(st.sampled_from(["t/one", "t/two", "t/three"])), tuple(zip(types, names))),
            "vals": vals, "src": draw(st.sampled_from([None, "src1", "src2"])), "cls": None, "gen": GEN}


@st.composite
def case_strategy(draw):
    op = draw(st.sampled_from(["extend", "extend", "merge", "timestamps", "timestamps", "grouped", "replace",
                               "init_from", "rewriter", "grouped-replace"]))
    recs = [draw(small_record()) for _ in range(draw(st.integers(1, 4)))]
    if op in ("extend", "merge", "grouped") and len(recs) >= 2 and draw(st.integers(0, 2)) == 0:
        # the same record type occurs more than once in the list (equal descriptor, other values), with records of
        # other types in between: every occurrence counts, in its position
        j = draw(st.integers(0, len(recs) - 2))
        twin = dict(recs[j])
        twin["vals"] = [draw(value_of(t)) for t, _ in twin["desc"][1]]
        recs.insert(draw(st.integers(j + 2, len(recs))), twin)
    fields_override = None
    if op == "rewriter" and draw(st.integers(0, 2)) == 0 and recs[0]["desc"][1]:
        # a projection that names EVERY field of the record (nothing is dropped) in an order of its own, possibly with
        # names the record does not have in between: the order asked for is the order of the result
        own = [n for _, n in recs[0]["desc"][1]]
        fields_override = list(draw(st.permutations(own)))
        if draw(st.booleans()):
            fields_override.insert(draw(st.integers(0, len(fields_override))), "nope")
    if op == "timestamps" and draw(st.integers(0, 3)) == 0:
        # a record that already LOOKS expanded (first fields 'datetime ts', 'string ts_description', free text in it)
        # is a record like any other: one output per datetime field, described by the field's name
        r0 = recs[0]
        rest = [(t, n) for t, n in r0["desc"][1] if n not in ("ts", "ts_description")]
        vals = [v for (t, n), v in zip(r0["desc"][1], r0["vals"]) if n not in ("ts", "ts_description")]
        r0["desc"] = (r0["desc"][0], (("datetime", "ts"), ("string", "ts_description")) + tuple(rest))
        r0["vals"] = [draw(value_of("datetime")), draw(st.sampled_from([None, "", "free text", "ts", "other"]))] + vals
    return {
        "op": op,
        "recs": recs,
        "replace": draw(st.booleans()),
        "rename": draw(st.sampled_from([None, None, "new/name"])),
        "fields": fields_override if fields_override is not None else
        draw(st.lists(st.sampled_from(NAMES + ["nope"]), max_size=4, unique=True)),
        "exclude": [] if fields_override is not None and draw(st.booleans()) else
        draw(st.lists(st.sampled_from(NAMES + ["nope"]), max_size=2, unique=True)),
        "nested_group": draw(st.booleans()),
        "raise_unknown": draw(st.booleans()),
        "newvals": {n: draw(value_of("string")) for n in draw(st.lists(st.sampled_from(NAMES), max_size=2, unique=True))},
    }


def fields_of(spec):
    return [(t, n) for t, n in spec["desc"][1]]


def ref_merge(specs, replace):
    """-> ordered [(name, type, index of providing record)]"""
    order = []
    info = {}
    for i, s in enumerate(specs):
        for t, n in fields_of(s):
            if n not in info:
                order.append(n)
                info[n] = (t, i)
            elif replace:
                info[n] = (t, i)
    return [(n,) + info[n] for n in order]


def check(case, ctx):
    import flow.record.base as base
    from flow.record import GroupedRecord, RecordDescriptor, extend_record, iter_timestamped_records
    from flow.record.base import merge_record_descriptors
    from flow.record.stream import RecordFieldRewriter

    specs = case["recs"]
    built = impl(lambda: [gen.build_record(s) for s in specs])
    if not built.ok:
        ctx.cls("discarded:constructor-raised:" + built.type)
        return
    recs = built.value
    before = [observe(r) for r in recs]
    op = case["op"]
    ctx.cls("op:" + op)
    names_per = [set(n for _, n in fields_of(s)) for s in specs]
    shared = len(specs) >= 2 and any(names_per[i] & names_per[j] for i in range(len(specs)) for j in range(i))

    def desc_view(r):
        """Everything a record type says about itself (several of these views are cached separately)."""
        d = r._desc
        return (d.name, tuple(d.get_field_tuples()), tuple(d.fields.keys()), tuple(f.name for f in d.get_all_fields().values()),
                tuple((f.typename, f.name) for f in d.getfields("string")), tuple(d.recordType.__slots__), d.identifier)

    desc_before = [desc_view(r) for r in recs]

    def originals_unchanged():
        for i, r in enumerate(recs):
            if observe(r) != before[i]:
                raise Violation(op + "/original-modified", "record %d changed: %s" % (i, diff(before[i], observe(r))))
            if desc_view(r) != desc_before[i]:
                raise Violation(op + "/original-type-modified", "the record type of record %d changed: %s"
                                % (i, diff(desc_before[i], desc_view(r))))

    if op in ("extend", "merge"):
        replace, rename = case["replace"], case["rename"]
        ref = ref_merge(specs, replace)
        if shared:
            ctx.nontriv()
        ctx.cls("replace:%s" % replace, "rename:%s" % bool(rename))
        if op == "merge":
            res = impl(merge_record_descriptors, tuple(r._desc for r in recs), replace, rename)
            if not res.ok:
                raise Violation("merge/raised", "%r" % (res,), detail=res.type)
            d = res.value
        else:
            res = impl(extend_record, recs[0], recs[1:], replace, rename)
            if not res.ok:
                raise Violation("extend/raised", "extend_record(%r) raised %r" % (specs, res), detail=res.type)
            d = res.value._desc
        got_fields = [(n, t) for t, n in d.get_field_tuples()]
        exp_fields = [(n, t) for n, t, _ in ref]
        if got_fields != exp_fields:
            what = "order" if sorted(got_fields) == sorted(exp_fields) else "types" if [n for n, _ in got_fields] == [
                n for n, _ in exp_fields] else "names"
            raise Violation("%s/fields-%s" % (op, what), "replace=%s: fields %r, expected %r" % (replace, got_fields, exp_fields))
        exp_name = rename or specs[0]["desc"][0]
        if d.name != exp_name:
            raise Violation(op + "/name", "name %r, expected %r" % (d.name, exp_name))
        if op == "extend":
            out = res.value
            for n, t, i in ref:
                exp = observe(getattr(recs[i], n))
                got = observe(getattr(out, n))
                if exp != got:
                    raise Violation("extend/value-provenance", "replace=%s field %s: %r, expected the value of record %d: %r"
                                    % (replace, n, got, i, exp))
        originals_unchanged()

    elif op == "timestamps":
        spec, rec = specs[0], recs[0]
        dts = [n for t, n in fields_of(spec) if t == "datetime"]
        ctx.cls("datetime-fields:%d" % len(dts))
        if len(dts) >= 2 or any(n in ("ts", "ts_description") for _, n in fields_of(spec)):
            ctx.nontriv()
        if any(n in ("ts", "ts_description") for _, n in fields_of(spec)):
            ctx.cls("has-field-named-ts")
        res = impl(lambda: list(iter_timestamped_records(rec)))
        if not res.ok:
            raise Violation("timestamps/raised", "iter_timestamped_records(%r) raised %r" % (spec, res), detail=res.type)
        outs = res.value
        if not dts:
            if len(outs) != 1 or outs[0] is not rec:
                raise Violation("timestamps/no-datetime-not-identity", "record without datetime fields: got %r" % (outs,))
            return
        if len(outs) != len(dts):
            raise Violation("timestamps/count", "%d datetime fields, %d records" % (len(dts), len(outs)))
        orig = {n: observe(getattr(rec, n)) for _, n in fields_of(spec)}
        for fname, out in zip(dts, outs):
            if "ts_description" not in out.__slots__ or "ts" not in out.__slots__:
                raise Violation("timestamps/not-expanded", "record for datetime field %r has no ts / ts_description: fields %r"
                                % (fname, [n for _, n in out._desc.get_field_tuples()]))
            if out.ts_description != fname:
                raise Violation("timestamps/description", "expected ts_description %r, got %r" % (fname, out.ts_description))
            if observe(out.ts) != orig[fname]:
                raise Violation("timestamps/ts-value", "record for %r: ts = %r but the original record's %s = %r; fields %r"
                                % (fname, out.ts, fname, getattr(rec, fname), fields_of(spec)),
                                detail="field-named-ts" if "ts" in orig else "plain")
            if out._desc.name != spec["desc"][0]:
                raise Violation("timestamps/name", "name %r" % out._desc.name)
            for m in ("_source", "_classification", "_generated"):
                if observe(getattr(out, m)) != observe(getattr(rec, m)):
                    raise Violation("timestamps/metadata", "%s of the per-timestamp record is %r, the original's is %r"
                                    % (m, getattr(out, m), getattr(rec, m)), detail=m)
            onames = [n for _, n in out._desc.get_field_tuples()]
            if onames[:2] != ["ts", "ts_description"]:
                raise Violation("timestamps/field-order", "fields %r" % onames)
            for t, n in fields_of(spec):
                if n in ("ts", "ts_description"):
                    continue
                if n not in onames:
                    raise Violation("timestamps/field-dropped", "original field %s missing from %r" % (n, onames))
                if observe(getattr(out, n)) != orig[n]:
                    raise Violation("timestamps/field-changed", "field %s: %r, original %r" % (n, getattr(out, n), getattr(rec, n)))
        originals_unchanged()

    elif op == "grouped":
        if len(recs) < 2:
            return
        members = list(recs)
        mspecs = list(specs)
        if case["nested_group"] and len(recs) >= 3:
            inner = GroupedRecord("g/inner", recs[1:3])
            g = impl(GroupedRecord, "g/outer", [recs[0], inner] + recs[3:])
            ctx.cls("grouped:nested")
        else:
            g = impl(GroupedRecord, "g/outer", members)
        if not g.ok:
            raise Violation("grouped/raised", "%r" % (g,), detail=g.type)
        g = g.value
        if shared:
            ctx.nontriv()
        ref = ref_merge(mspecs, False)
        got_fields = [(n, t) for t, n in g._desc.get_field_tuples()]
        exp_fields = [(n, t) for n, t, _ in ref]
        if got_fields != exp_fields:
            raise Violation("grouped/flat-fields", "flat fields %r, expected %r" % (got_fields, exp_fields))
        for n, t, i in ref:
            if observe(getattr(g, n)) != observe(getattr(recs[i], n)):
                raise Violation("grouped/first-member-wins", "field %s: %r, expected member %d's %r"
                                % (n, getattr(g, n), i, getattr(recs[i], n)),
                                detail="shadowed-by-grouped-attribute" if n in GROUPED_ATTRS else "field")
        if [observe(r) for r in g.records] != before[: len(g.records)]:
            raise Violation("grouped/members", "members changed or reordered")
        ad = list(g._asdict().keys())
        exp_keys = [n for n, _, _ in ref]
        if [k for k in ad if not k.startswith("_")] != exp_keys:
            raise Violation("grouped/asdict", "_asdict keys %r, expected %r" % (ad, exp_keys))
        originals_unchanged()

    elif op == "grouped-replace":
        if len(recs) < 2:
            return
        if case["nested_group"] and len(recs) >= 3:
            # a group built from a group: its members are flattened, the copy must address them all the same
            ctx.cls("grouped-replace:nested")
            g = impl(lambda: GroupedRecord("g/outer", [recs[0], GroupedRecord("g/inner", recs[1:3])] + recs[3:]))
        else:
            g = impl(GroupedRecord, "g/outer", list(recs))
        if not g.ok:
            raise Violation("grouped/raised", "%r" % (g,), detail=g.type)
        g = g.value
        ref = ref_merge(specs, False)
        owner = {n: i for n, _, i in ref}
        kw = {n: v for n, v in case["newvals"].items() if n in owner and n not in GROUPED_ATTRS
              and dict((x, t) for t, x in fields_of(specs[owner[n]]))[n] == "string"}
        if shared or kw:
            ctx.nontriv()
        res = impl(lambda: g._replace(**kw))
        if not res.ok:
            raise Violation("grouped-replace/raised", "_replace(%r) raised %r" % (kw, res), detail=res.type)
        out = res.value
        if len(out.records) != len(recs) or out.name != g.name:
            raise Violation("grouped-replace/shape", "members %d -> %d" % (len(recs), len(out.records)))
        for i, (spec, old, new) in enumerate(zip(specs, recs, out.records)):
            if new._desc != old._desc:
                raise Violation("grouped-replace/descriptor", "member %d descriptor changed" % i)
            for t, n in fields_of(spec) + [("string", "_source"), ("string", "_classification"), ("datetime", "_generated")]:
                if n in kw and owner.get(n) == i:
                    exp = ("none",) if kw[n] is None else observe(base.fieldtype("string")(kw[n]))
                    what = "named"
                else:
                    exp = observe(getattr(old, n))
                    what = "unnamed"
                if observe(getattr(new, n)) != exp:
                    raise Violation("grouped-replace/field", "member %d field %s (%s): %r, expected %r"
                                    % (i, n, what, getattr(new, n), getattr(old, n) if what == "unnamed" else kw[n]),
                                    detail=what + ("-metadata" if n.startswith("_") else ""))
        originals_unchanged()
        # the copy is a record of its own: assigning to it afterwards (any member's field) leaves the original group and
        # its members alone, and assigning to the original afterwards leaves the copy alone
        strs = [n for n, t, i in ref if t == "string" and n not in GROUPED_ATTRS]
        for n2 in strs:
            a = impl(setattr, out, n2, "assigned-to-copy")
            if not a.ok:
                raise Violation("grouped-replace/assign-to-copy-raised", "copy.%s = .. raised %r" % (n2, a), detail=a.type)
            ctx.count(1)
            try:
                originals_unchanged()
            except Violation as v:
                raise Violation("grouped-replace/copy-shares-members", "after copy = g._replace(%r): assigning copy.%s changed the "
                                "original: %s" % (kw, n2, v.message))
        snap = [observe(r) for r in out.records]
        for n2 in strs:
            a = impl(setattr, g, n2, "assigned-to-original")
            if not a.ok:
                raise Violation("grouped-replace/assign-to-original-raised", "g.%s = .. raised %r" % (n2, a), detail=a.type)
            if [observe(r) for r in out.records] != snap:
                raise Violation("grouped-replace/copy-shares-members", "after copy = g._replace(%r): assigning g.%s changed the copy"
                                % (kw, n2))

    elif op == "replace":
        spec, rec = specs[0], recs[0]
        kw = {n: v for n, v in case["newvals"].items() if n in [x for _, x in fields_of(spec)]
              and dict((x, t) for t, x in fields_of(spec))[n] == "string"}
        if kw:
            ctx.nontriv()
        res = impl(lambda: rec._replace(**kw))
        if not res.ok:
            raise Violation("replace/raised", "_replace(%r) raised %r" % (kw, res), detail=res.type)
        out = res.value
        for t, n in fields_of(spec):
            exp = observe(base.fieldtype("string")(kw[n])) if n in kw and kw[n] is not None else (
                ("none",) if n in kw else observe(getattr(rec, n)))
            if observe(getattr(out, n)) != exp:
                raise Violation("replace/field", "field %s: %r expected %r" % (n, observe(getattr(out, n)), exp),
                                detail="named" if n in kw else "unnamed")
        if observe(out._source) != observe(rec._source) or observe(out._generated) != observe(rec._generated):
            raise Violation("replace/metadata", "metadata changed")
        bad = impl(lambda: rec._replace(no_such_field_zz=1))
        if bad.ok:
            raise Violation("replace/unknown-accepted", "_replace accepted an unknown field name")
        originals_unchanged()

    elif op == "init_from":
        if len(recs) < 2:
            return
        target = recs[0]._desc
        src = recs[1]
        if names_per[0] & names_per[1]:
            ctx.nontriv()
        res = impl(target.init_from_record, src, case["raise_unknown"])
        tnames = {n: t for t, n in fields_of(specs[0])}
        unknown = [n for _, n in fields_of(specs[1]) if n not in tnames]
        if case["raise_unknown"] and unknown:
            import keyword

            if res.ok and any(keyword.iskeyword(n) for n in tnames):
                # (a type with a Python-keyword field name is built from the keyword-argument template, which takes any
                # keyword: the docstring's TypeError does not come - not a matter of the composition rules)
                ctx.cls("init_from:unknown-accepted-by-keyword-template")
                return
            if res.ok:
                raise Violation("init_from/unknown-not-raised", "raise_unknown=True but %r accepted" % unknown)
            return
        # conversion between differing types may legitimately fail (string value into a varint field)
        same_typed = all(dict((n, t) for t, n in fields_of(specs[1])).get(n, t) == t for n, t in tnames.items())
        if not res.ok:
            if same_typed:
                raise Violation("init_from/raised", "%r" % (res,), detail=res.type)
            ctx.cls("init_from:type-conversion-refused")
            return
        out = res.value
        if same_typed:
            for n in tnames:
                exp = observe(getattr(src, n)) if n in names_per[1] else None
                got = observe(getattr(out, n))
                if exp is not None and got != exp:
                    raise Violation("init_from/value", "field %s: %r expected %r" % (n, got, exp))
                if exp is None and getattr(out, n) not in (None, []):
                    raise Violation("init_from/invented", "field %s absent in the source but set to %r" % (n, getattr(out, n)))
        originals_unchanged()

    elif op == "rewriter":
        grouped = case["nested_group"] and len(recs) >= 2
        if grouped:
            # field projection of a grouped record works on its flat view: union of the members' fields, first wins
            ctx.cls("rewriter:grouped-subject")
            ref = [x for x in ref_merge(specs, False)]
            if any(n in GROUPED_ATTRS for n, _, _ in ref):
                return  # attribute shadowing of grouped records is a listed finding of this property
            rec = GroupedRecord("g/outer", list(recs))
            have = [n for n, _, _ in ref]
            types = dict((n, t) for n, t, _ in ref)
            source_of = dict((n, recs[i]) for n, _, i in ref)
            subject_name = "g/outer"
        else:
            spec, rec = specs[0], recs[0]
            have = [n for _, n in fields_of(spec)]
            types = dict((n, t) for t, n in fields_of(spec))
            source_of = dict((n, rec) for n in have)
            subject_name = spec["desc"][0]
        fields, exclude = case["fields"], case["exclude"]
        if fields:
            exp = [n for n in fields if n in have and n not in exclude]
        else:
            exp = [n for n in have if n not in exclude]
        if (fields or exclude) and exp != have:
            ctx.nontriv()
        rw = RecordFieldRewriter(fields, exclude)
        res = impl(rw.rewrite, rec)
        if not res.ok:
            raise Violation("rewriter/raised", "rewrite(fields=%r, exclude=%r) raised %r" % (fields, exclude, res), detail=res.type)
        out = res.value
        got = [n for _, n in out._desc.get_field_tuples()]
        if got != exp and not (grouped and not fields and not exclude and got == have):
            raise Violation("rewriter/fields", "fields=%r exclude=%r on %r: got %r expected %r" % (fields, exclude, have, got, exp),
                            detail="grouped" if grouped else None)
        for t, n in out._desc.get_field_tuples():
            if t != types[n]:
                raise Violation("rewriter/type", "field %s type %s, original %s" % (n, t, types[n]))
            if observe(getattr(out, n)) != observe(getattr(source_of[n], n)):
                raise Violation("rewriter/value", "field %s changed: %r, the %s record has %r"
                                % (n, getattr(out, n), "grouped" if grouped else "plain", getattr(source_of[n], n)),
                                detail="grouped" if grouped else None)
        if out._desc.name != subject_name:
            raise Violation("rewriter/name", "name changed to %r" % out._desc.name)
        again = impl(RecordFieldRewriter(fields, exclude).rewrite, rec)
        if not again.ok or observe(again.value) != observe(out):
            raise Violation("rewriter/second-projection-differs", "the same projection by a second rewriter gives %r, the "
                            "first gave %r" % (again, out))
        for m in ("_source", "_classification", "_generated"):
            if observe(getattr(out, m)) != observe(getattr(rec, m)):
                raise Violation("rewriter/metadata", "%s changed: %r, was %r" % (m, getattr(out, m), getattr(rec, m)),
                                detail="grouped" if grouped else None)
        originals_unchanged()


def parts(tier):
    return [Part("composition", check, strategy=case_strategy(), examples=(500, 8000))]
