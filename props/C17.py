"""C17 - Writers lose nothing: close, split and rotation keep every record once."""
import csv
import datetime as _d
import glob
import gzip
import io
import itertools
import os
import re
import shutil
import sqlite3
import types

from hypothesis import strategies as st

from vlib.observe import diff, observe
from vlib.runner import Part, Violation, impl

LEVEL = "exploration"
RULE = (
    "(a) EXHAUSTIVE protocol-valid call histories of length <=5 over {write, flush} followed by close / with-exit / "
    "close-close / exit-close, for the stream writer (none, gz, bz2, lz4, zst, zstd), jsonfile, avro, sqlite, csvfile, "
    "line and text writers; (b) split grid: N in 0..3L+1 x L in 1..5 x suffix length 1-3 x target {plain, .gz, "
    "jsonfile://, avro://} x closed by 'with' or by bare close(); (c) rotation: generated _generated sequences that "
    "alternate between template paths, optional pre-existing files, under an owned clock that is frozen or advances. "
    "Oracle: after the final close the matching reader returns exactly the records written (order, count, deep "
    "observation for stream/JSON) and independent tools accept the file (gzip, fastavro, sqlite3, csv); zero records "
    "=> stream/JSON/Avro/SQLite output opens and yields nothing; split parts hold <= L each, are readable alone, "
    "their record-wise (and for stream targets raw byte) concatenation is the sequence; rotation keeps the multiset "
    "of records on disk equal to written + pre-existing. Non-trivial = history with a close without preceding "
    "flush, split with N a multiple of L or N > L, rotation returning to an earlier path."
)
ASSUMPTIONS = [
    "the rotation clock is owned by shadowing flow.record.stream.datetime from the check process (no repo hook)",
]

UTC = _d.timezone.utc
GEN = _d.datetime(2020, 6, 7, 8, 9, 10, tzinfo=UTC)

WRITERS = ["stream", "stream.gz", "stream.bz2", "stream.lz4", "stream.zst", "stream.zstd", "jsonfile", "avro", "sqlite",
           "csvfile", "line", "text"]


def the_desc():
    from flow.record import RecordDescriptor

    return RecordDescriptor("c17/rec", [("string", "s"), ("varint", "n")])


def mkrec(k, gen=GEN):
    return the_desc()("val-%d" % k, k, _generated=gen)


def url_for(kind, d, base="out"):
    if kind.startswith("stream"):
        ext = kind[6:]
        return os.path.join(d, base + ".records" + ext)
    return {
        "jsonfile": os.path.join(d, base + ".json"),
        "avro": os.path.join(d, base + ".avro"),
        "sqlite": "sqlite://" + os.path.join(d, base + ".db"),
        "csvfile": "csvfile://" + os.path.join(d, base + ".csv"),
        "line": "line://" + os.path.join(d, base + ".txt"),
        "text": "text://" + os.path.join(d, base + ".txt"),
    }[kind]


def path_of(url):
    return url.split("://", 1)[1] if "://" in url else url


def histories(tier, alphabet="wf"):
    out = []
    for p in range(0, 5):
        for prefix in itertools.product(alphabet, repeat=p):
            for term in (("close",), ("exit",), ("close", "close"), ("exit", "close")):
                if p + len(term) <= 5:
                    out.append(list(prefix) + list(term))
    return out


# writers for which a record exists whose write() raises without the writer being at fault
POISONABLE = {"stream": "surrogate", "stream.gz": "surrogate", "jsonfile": "bigint", "sqlite": "int65"}


# the stream-level writer on a file object the caller opened (and still holds when the writer has been closed)
FILEOBJ_WRITERS = ["stream-fileobj", "stream-fileobj.gz", "stream-output-fileobj"]


def history_cases(tier):
    cases = [{"writer": w, "hist": h} for w in WRITERS for h in histories(tier)]
    cases += [{"writer": w, "hist": h} for w in FILEOBJ_WRITERS for h in histories(tier) if "exit" not in h]
    # histories in which some write() raises and the caller carries on ('p'): nothing accepted may be lost
    for w in POISONABLE:
        for h in histories(tier, "wfp"):
            if "p" in h:
                cases.append({"writer": w, "hist": h})
    return cases


def poison_record(kind):
    from flow.record import RecordDescriptor

    how = POISONABLE[kind]
    if how == "surrogate":
        return the_desc()("\ud800", 0, _generated=GEN)
    if how == "bigint":
        return the_desc()("big", 10**5000, _generated=GEN)
    return the_desc()("wide", 2**70, _generated=GEN)


def read_back(kind, url):
    """-> (n_records, list of (s, n) keys or None, observations or None)"""
    from flow.record import RecordReader

    path = path_of(url)
    if kind in ("line", "text"):
        data = open(path, "rb").read().decode("utf8", "surrogateescape")
        if kind == "text":
            lines = [ln for ln in data.split("\n") if ln]
            keys = []
            for ln in lines:
                m = re.search(r"s='val-(\d+)' n=(\d+)", ln)
                keys.append((int(m.group(1)), int(m.group(2))) if m else None)
            return len(lines), keys, None
        blocks = re.findall(r"--\[ RECORD (\d+) \]--\n(.*?)(?=--\[ RECORD|\Z)", data, re.S)
        keys = []
        for _, body in blocks:
            m1 = re.search(r"^\s*s = val-(\d+)$", body, re.M)
            m2 = re.search(r"^\s*n = (\d+)$", body, re.M)
            keys.append((int(m1.group(1)), int(m2.group(1))) if m1 and m2 else None)
        return len(blocks), keys, None
    if kind == "csvfile":
        with open(path, newline="") as f:
            rows = list(csv.reader(f))
        if not rows:
            return 0, [], None
        body = [r for r in rows[1:]]
        keys = [(int(r[0].split("-")[1]), int(r[1])) for r in body]
        return len(body), keys, None
    rd = RecordReader(url)
    try:
        recs = list(rd)
    finally:
        rd.close()
    keys = [(int(str(r.s).split("-")[1]), int(r.n)) for r in recs]
    obs = [observe(r) for r in recs] if kind.startswith("stream") or kind == "jsonfile" else None
    return len(recs), keys, obs


def independent_check(kind, url, n):
    path = path_of(url)
    if kind == "stream.gz":
        gzip.decompress(open(path, "rb").read())
    elif kind == "stream.bz2":
        import bz2

        bz2.decompress(open(path, "rb").read())
    elif kind == "stream.lz4":
        import lz4.frame

        lz4.frame.decompress(open(path, "rb").read())
    elif kind in ("stream.zst", "stream.zstd"):
        import zstandard

        zstandard.ZstdDecompressor().decompressobj().decompress(open(path, "rb").read())
    elif kind == "avro":
        import fastavro

        with open(path, "rb") as f:
            rows = list(fastavro.reader(f))
        if len(rows) != n:
            raise AssertionError("fastavro sees %d rows, expected %d" % (len(rows), n))
    elif kind == "sqlite":
        con = sqlite3.connect(path)
        try:
            tables = [r[0] for r in con.execute("SELECT name FROM sqlite_master WHERE type='table'")]
            total = sum(con.execute('SELECT COUNT(*) FROM "%s"' % t).fetchone()[0] for t in tables)
        finally:
            con.close()
        if total != n:
            raise AssertionError("sqlite3 sees %d rows, expected %d" % (total, n))


def check_history(case, ctx):
    from flow.record import RecordWriter

    kind, hist = case["writer"], case["hist"]
    ctx.cls("writer:" + kind, "terminal:" + "+".join(h for h in hist if h in ("close", "exit")))
    tmp = ctx.fresh_dir()
    try:
        url = url_for(kind, tmp)
        written = []
        flushed_last = False
        close_without_flush = False
        held = None
        if kind in FILEOBJ_WRITERS:
            from flow.record.stream import RecordOutput, RecordStreamWriter

            held = gzip.open(path_of(url), "wb") if kind.endswith(".gz") else open(path_of(url), "wb")
            w = RecordOutput(held) if kind == "stream-output-fileobj" else RecordStreamWriter(held)
        else:
            w = RecordWriter(url)
        k = 0
        base = "history/%s" % kind.split(".")[0].split("-")[0]
        for op in hist:
            if op == "w":
                # the producer re-uses its record object: what was handed to write() counts as of that moment, the
                # object gets other values as soon as write() has returned
                r = mkrec(k)
                res = impl(w.write, r)
                written.append(mkrec(k))
                for fname, fval in (("s", "reused-after-write"), ("n", -1)):
                    if fname in r.__slots__:
                        impl(setattr, r, fname, fval)
                k += 1
                flushed_last = False
            elif op == "p":
                pres = impl(w.write, poison_record(kind))
                if pres.ok:
                    # an implementation that defers the refusal (serialises at flush time) leaves the model without a
                    # statement about this record: the history is abandoned and counted, neither pass nor fail
                    ctx.cls("abandoned:unserialisable-record-accepted")
                    impl(w.close)
                    return
                ctx.cls("write-raised-and-caller-continued")
                flushed_last = False
                continue
            elif op == "f":
                res = impl(w.flush)
                flushed_last = True
            elif op == "close":
                if not flushed_last:
                    close_without_flush = True
                res = impl(w.close)
                flushed_last = True
            else:
                res = impl(w.__exit__, None, None, None)
                flushed_last = True
            if not res.ok:
                raise Violation(base + "/op-raised", "%s in history %s raised %r" % (op, hist, res), detail=op)
        del w
        if close_without_flush:
            ctx.nontriv()
            ctx.cls("close-without-flush")
        n = len(written)
        ctx.cls("records:%d" % n)
        hs = "".join(h[0] for h in hist)
        if n == 0 and kind in ("csvfile", "line", "text"):
            # text-oriented writers: an empty output is an empty file; nothing to read back
            if os.path.exists(path_of(url)) and os.path.getsize(path_of(url)) != 0:
                raise Violation(base + "/empty-not-empty", "history %s: %d bytes without records" % (hs, os.path.getsize(path_of(url))))
            return
        res = impl(read_back, kind, url)
        if not res.ok:
            what = "empty-output-unreadable" if n == 0 else "unreadable"
            raise Violation("%s/%s" % (base, what), "history %s (%d records): reading back raised %r; file size %s"
                            % (hs, n, res, os.path.getsize(path_of(url)) if os.path.exists(path_of(url)) else None),
                            detail="no-flush" if close_without_flush else "flushed")
        cnt, keys, obs = res.value
        exp_keys = [(i, i) for i in range(n)]
        if cnt != n or keys != exp_keys:
            what = "lost" if cnt < n else "duplicated" if cnt > n else "altered"
            raise Violation("%s/records-%s" % (base, what), "history %s: wrote %d records, read back %d: %r"
                            % (hs, n, cnt, keys[:8]), detail="no-flush" if close_without_flush else "flushed")
        if obs is not None:
            exp_obs = [observe(r) for r in written]
            if obs != exp_obs:
                raise Violation(base + "/records-altered", "history %s: %s" % (hs, diff(tuple(exp_obs), tuple(obs))))
        ind = impl(independent_check, kind, url, n)
        if not ind.ok:
            raise Violation(base + "/independent-tool-rejects", "history %s: %r" % (hs, ind),
                            detail="no-flush" if close_without_flush else "flushed")
    finally:
        shutil.rmtree(tmp, ignore_errors=True)


# ---------------------------------------------------------------------------------------------
# split

SPLIT_TARGETS = ["plain", "gz", "jsonfile", "avro"]


def split_cases(tier):
    cases = []
    for L in range(1, 6):
        for N in range(0, 3 * L + 2):
            for target in SPLIT_TARGETS:
                for closed_by in ("with", "close"):
                    sl = 1 + (N + L) % 3
                    cases.append({"N": N, "L": L, "suffix": sl, "target": target, "closed_by": closed_by,
                                  "relative": (N + L) % 4 == 0})
    # more parts than the suffix length has digits for (10**suffix-length and beyond): names grow, nothing wraps
    for L, sl, Ns in ((1, 1, (9, 10, 11, 12, 25)), (2, 1, (19, 20, 21, 23)), (3, 1, (31,)), (1, 2, (99, 100, 101, 102)),
                      (2, 2, (201, 203))):
        for N in Ns:
            for target in ("plain", "jsonfile") if N < 150 else ("plain",):
                cases.append({"N": N, "L": L, "suffix": sl, "target": target, "closed_by": "with", "relative": False,
                              "many-parts": True})
    return cases


def check_split(case, ctx):
    from flow.record import RecordReader, RecordWriter

    N, L, sl, target, closed_by = case["N"], case["L"], case["suffix"], case["target"], case["closed_by"]
    ctx.cls("target:" + target, "closed-by:" + closed_by)
    if case.get("many-parts"):
        ctx.cls("split:parts>=10**suffix-length" if -(-N // L) >= 10 ** sl else "split:parts-just-below-10**suffix-length")
    if N % L == 0 or N > L:
        ctx.nontriv()
    tmp = ctx.fresh_dir()
    base = "split/%s" % ("stream" if target in ("plain", "gz") else target)
    try:
        name = {"plain": "out.records", "gz": "out.records.gz", "jsonfile": "out.json", "avro": "out.avro"}[target]
        sub = {"plain": "", "gz": "", "jsonfile": "jsonfile", "avro": "avro"}[target]
        path = os.path.join(tmp, name)
        relative = bool(case.get("relative"))
        if relative:
            ctx.cls("split:bare-relative-name")
        target_name = name if relative else path  # a bare file name, resolved against the working directory
        uri = ("split+%s://%s" % (sub, target_name) if sub else "split://" + target_name) + "?count=%d&suffix-length=%d" % (L, sl)
        recs = [mkrec(i) for i in range(N)]

        def run():
            if relative:
                old = os.getcwd()
                os.chdir(tmp)
                try:
                    return _run()
                finally:
                    os.chdir(old)
            return _run()

        def _run():
            w = RecordWriter(uri)
            if closed_by == "with":
                with w:
                    for r in recs:
                        w.write(r)
            else:
                for r in recs:
                    w.write(r)
                w.close()

        res = impl(run)
        if not res.ok:
            raise Violation(base + "/raised", "N=%d L=%d %s: %r" % (N, L, closed_by, res), detail=closed_by)
        files = sorted(f for f in os.listdir(tmp))
        stem, ext = (name.rsplit(".", 1) + [""])[:2]
        rx = re.compile(re.escape(stem) + r"\.(\d+)\." + re.escape(ext) + "$")
        parts_ = []
        for f in files:
            m = rx.match(f)
            if not m:
                raise Violation(base + "/unexpected-file", "N=%d L=%d: unexpected file %r in %r" % (N, L, f, files))
            if len(m.group(1)) != max(sl, len(str(int(m.group(1))))):
                raise Violation(base + "/suffix-length", "part %r: suffix length %d expected %d" % (f, len(m.group(1)), sl))
            parts_.append((int(m.group(1)), f))
        parts_.sort()
        if [i for i, _ in parts_] != list(range(len(parts_))):
            raise Violation(base + "/part-indices", "parts %r" % (parts_,))
        allkeys = []
        raw = b""
        deferred = None
        for i, f in parts_:
            fp = os.path.join(tmp, f)
            url = ("%s://%s" % (sub, fp)) if sub else fp

            def rd():
                r = RecordReader(url)
                try:
                    return [(int(str(x.s).split("-")[1]), int(x.n)) for x in r]
                finally:
                    r.close()

            got = impl(rd)
            if not got.ok:
                v = Violation(base + "/part-unreadable", "N=%d L=%d closed by %s: part %s (%d bytes) cannot be read alone: %r"
                              % (N, L, closed_by, f, os.path.getsize(fp), got), detail=closed_by)
                if i == len(parts_) - 1 and N % L == 0 and deferred is None:
                    deferred = v  # trailing part without records: keep checking the other parts first
                    continue
                raise v
            if len(got.value) > L:
                raise Violation(base + "/part-too-large", "part %s holds %d > %d" % (f, len(got.value), L))
            allkeys.extend(got.value)
            if target == "plain":
                raw += open(fp, "rb").read()
            elif target == "gz":
                raw += gzip.decompress(open(fp, "rb").read())
        exp = [(i, i) for i in range(N)]
        if allkeys != exp:
            what = "lost" if len(allkeys) < N else "duplicated" if len(allkeys) > N else "reordered"
            raise Violation(base + "/records-" + what, "N=%d L=%d: concatenation of parts gives %r" % (N, L, allkeys[:12]))
        if target in ("plain", "gz") and parts_ and not (deferred is not None and not raw):
            from flow.record import RecordStreamReader

            got = impl(lambda: [(int(str(x.s).split("-")[1]), int(x.n)) for x in RecordStreamReader(io.BytesIO(raw))])
            if not got.ok or got.value != exp:
                raise Violation(base + "/raw-concatenation", "N=%d L=%d: raw byte concatenation of the parts reads as %r" % (N, L, got))
        if deferred is not None:
            raise deferred
    finally:
        shutil.rmtree(tmp, ignore_errors=True)


# ---------------------------------------------------------------------------------------------
# rotation under an owned clock


class OwnedClock:
    def __init__(self, start, step):
        self.t = start
        self.step = step

    def now(self, tz=None):
        v = self.t
        self.t = self.t + _d.timedelta(seconds=self.step)
        return v if tz is None else v.astimezone(tz)


@st.composite
def rotation_case(draw):
    nslots = draw(st.integers(2, 3))
    seq = draw(st.lists(st.integers(0, nslots - 1), min_size=2, max_size=10))
    return {
        "seq": seq,
        "step": draw(st.sampled_from([0, 0, 0.4, 1, 3600])),
        "pre": draw(st.lists(st.integers(0, nslots - 1), max_size=2, unique=True)),
        "gz": draw(st.booleans()),
        # what distinguishes the files: the hour (the default template's granularity), the minute, or a record field
        "gran": draw(st.sampled_from(["hour", "hour", "minute", "field"])),
        # the adapter is chosen by the template's extension
        "ext": draw(st.sampled_from([None, None, None, ".json", ".jsonl", ".avro", ".records.bz2"])),
        # {ts} is the record's _generated as the record carries it (with its own UTC offset)
        "tzoff": draw(st.sampled_from([None, None, 19800, -32400, 3600, 50400])),
    }


def check_rotation(case, ctx):
    import flow.record.stream as frs
    from flow.record import PathTemplateWriter, RecordReader, RecordWriter

    seq, step = case["seq"], case["step"]
    returns = any(seq[i] in seq[: i - 0] and seq[i] != seq[i - 1] for i in range(1, len(seq)))
    if returns:
        ctx.nontriv()
    ctx.cls("clock-step:%s" % step, "returns:%s" % returns, "pre-existing:%d" % len(case["pre"]))
    tmp = ctx.fresh_dir()
    real = frs.datetime
    clock = OwnedClock(_d.datetime(2024, 1, 1, 12, 0, 0, tzinfo=UTC), step)
    fake = types.SimpleNamespace(datetime=types.SimpleNamespace(now=clock.now), timezone=_d.timezone, timedelta=_d.timedelta)
    try:
        ext = case.get("ext") or (".records.gz" if case["gz"] else ".records")
        ctx.cls("template-extension:" + ext)
        gran = case.get("gran", "hour")
        ctx.cls("template-granularity:" + gran)
        if gran == "hour":
            template = os.path.join(tmp, "{name}-{ts:%Y%m%dT%H}" + ext)
        elif gran == "minute":
            template = os.path.join(tmp, "{name}-{ts:%Y%m%dT%H%M}" + ext)
        else:
            template = os.path.join(tmp, "{name}-{ts:%Y%m%dT%H}-{record.tag}" + ext)

        tzo = case.get("tzoff")
        if tzo is not None and ext == ".avro":
            tzo = None  # avro normalises timestamps to UTC on reading: the hour read back would not be the hour written
        tz_ = UTC if tzo is None else _d.timezone(_d.timedelta(seconds=tzo))
        ctx.cls("generated-offset:%s" % tzo)

        def slot_ts(slot):
            if gran == "minute":
                return _d.datetime(2023, 5, 1, 7, slot, 30, tzinfo=tz_)
            if gran == "field":
                return _d.datetime(2023, 5, 1, 7, 30, tzinfo=tz_)
            return _d.datetime(2023, 5, 1, slot, 30, tzinfo=tz_)

        def slot_prefix(slot):
            if gran == "minute":
                return "records-20230501T07%02d" % slot
            if gran == "field":
                return "records-20230501T07-slot%d." % slot
            return "records-20230501T%02d" % slot

        def mk(k, slot):
            if gran != "field":
                return mkrec(k, slot_ts(slot))
            from flow.record import RecordDescriptor

            d = RecordDescriptor("c17/rec", [("string", "s"), ("varint", "n"), ("string", "tag")])
            return d("val-%d" % k, k, "slot%d" % slot, _generated=slot_ts(slot))
        expected = []
        # pre-existing files at target paths
        for slot in case["pre"]:
            r = mk(1000 + slot, slot)
            p = template.format(name="records", ts=slot_ts(slot), record=r)
            w = RecordWriter(p)
            w.write(r)
            w.flush()
            w.close()
            expected.append((1000 + slot, 1000 + slot))
        frs.datetime = fake
        ptw = PathTemplateWriter(template)
        try:
            for i, slot in enumerate(seq):
                res = impl(ptw.write, mk(i, slot))
                if not res.ok:
                    raise Violation("rotation/write-raised", "%r" % (res,), detail=res.type)
                expected.append((i, i))
            res = impl(ptw.close)
            if not res.ok:
                raise Violation("rotation/close-raised", "%r" % (res,))
        finally:
            frs.datetime = real
        found = []
        per_file = {}
        for f in sorted(os.listdir(tmp)):
            fp = os.path.join(tmp, f)

            def rd():
                r = RecordReader(fp)
                try:
                    return [(int(str(x.s).split("-")[1]), int(x.n),
                             int(str(x.tag)[4:]) if gran == "field" else x._generated.minute if gran == "minute" else x._generated.hour)
                            for x in r]
                finally:
                    r.close()

            got = impl(rd)
            if not got.ok:
                raise Violation("rotation/file-unreadable", "file %s cannot be read: %r" % (f, got))
            per_file[f] = got.value
            for a, b, hour in got.value:
                found.append((a, b))
                if not f.startswith(slot_prefix(hour)):
                    raise Violation("rotation/wrong-file", "record %d (%s slot %d) found in %s" % (a, gran, hour, f), detail=gran)
        if sorted(found) != sorted(expected):
            missing = sorted(set(expected) - set(found))
            extra = sorted(x for x in found if found.count(x) > 1)
            what = "lost" if missing else "duplicated"
            raise Violation("rotation/records-" + what,
                            "sequence %r, clock step %s, pre-existing %r: missing %r duplicated %r; files %r"
                            % (seq, step, case["pre"], missing, extra[:4], {k: len(v) for k, v in per_file.items()}),
                            detail="same-second" if step < 1 else "distinct-seconds")
    finally:
        frs.datetime = real
        shutil.rmtree(tmp, ignore_errors=True)


def blocked_part_cases(tier):
    return [{"L": L, "N": N, "block": b, "target": t} for L in (1, 2, 3) for N in (L + 1, 2 * L + 1, 3 * L + 2) for b in (1, 2)
            for t in ("plain", "jsonfile") if b * L < N]


def check_blocked_part(case, ctx):
    """Creating part k fails (its name is taken by a directory); the producer logs the error of that write() and
    keeps writing.  Whatever is on disk afterwards: no part holds more than the limit, and the parts hold - in order,
    once each - every record whose write() returned."""
    from flow.record import RecordReader, RecordWriter

    L, N, blk, target = case["L"], case["N"], case["block"], case["target"]
    ctx.nontriv()
    ctx.cls("blocked-part:%d" % blk, "target:" + target)
    tmp = ctx.fresh_dir()
    try:
        name = "out.records" if target == "plain" else "out.json"
        stem, ext = name.rsplit(".", 1)
        os.mkdir(os.path.join(tmp, "%s.%02d.%s" % (stem, blk, ext)))
        uri = ("split://" if target == "plain" else "split+jsonfile://") + os.path.join(tmp, name) + "?count=%d" % L
        w = RecordWriter(uri)
        accepted = []
        raised = 0
        for i in range(N):
            res = impl(w.write, mkrec(i))
            if res.ok:
                accepted.append(i)
            else:
                raised += 1
        impl(w.close)
        if not raised:
            raise RuntimeError("harness: no write() raised although part %d cannot be created" % blk)
        seen = []
        for f in sorted(os.listdir(tmp)):
            fp = os.path.join(tmp, f)
            if os.path.isdir(fp):
                continue
            url = fp if target == "plain" else "jsonfile://" + fp

            def rd():
                r = RecordReader(url)
                try:
                    return [int(x.n) for x in r]
                finally:
                    r.close()

            got = impl(rd)
            if not got.ok:
                ctx.cls("blocked-part:a-part-is-unreadable")
                continue
            if len(got.value) > L:
                raise Violation("split/part-too-large", "part %s holds %d records %r, the limit is %d (part %d could not be created)"
                                % (f, len(got.value), got.value, L, blk), detail="after-failed-part")
            seen.extend(got.value)
        # (the write() during which the next part could not be created has stored its record before raising; that
        # record may be on disk - the statement does not forbid it)
        if seen != sorted(set(seen)) or [x for x in accepted if x not in seen]:
            raise Violation("split/records-lost-or-duplicated", "parts hold %r, write() returned for %r" % (seen, accepted),
                            detail="after-failed-part")
    finally:
        shutil.rmtree(tmp, ignore_errors=True)


LARGE_SIZES = [2**20 + 3, 2**24 - 64, 2**24 + 1, 2**25 + 5]
LARGE_TARGETS = ["stream", "stream.gz", "stream.zst", "split", "jsonfile", "avro", "sqlite"]


def large_cases(tier):
    return [{"size": n, "target": t, "field": f} for n in LARGE_SIZES for t in LARGE_TARGETS for f in ("bytes", "string")
            if not (t in ("jsonfile", "avro", "sqlite") and n > 2**24 + 1 and tier != "thorough")]


def check_large_record(case, ctx):
    """'Every record written is on disk and readable' has no size clause: one record of many megabytes between small
    ones, written through a closed writer, reads back together with its neighbours."""
    from flow.record import RecordDescriptor, RecordReader, RecordWriter

    n, target, field = case["size"], case["target"], case["field"]
    ctx.cls("record-bytes:%d" % n, "target:" + target, "field:" + field)
    ctx.nontriv()
    desc = RecordDescriptor("c17/large", [(field, "blob"), ("varint", "n")])
    big = (b"0123456789abcdef" * (n // 16 + 1))[:n]
    if field == "string":
        big = big.decode()
    small = b"small" if field == "bytes" else "small"
    recs = [desc(small, 0, _generated=GEN), desc(big, 1, _generated=GEN), desc(small, 2, _generated=GEN),
            desc(small, 3, _generated=GEN)]
    tmp = ctx.fresh_dir()
    try:
        if target == "split":
            uri = "split://" + os.path.join(tmp, "out.records") + "?count=3"
            readers = [os.path.join(tmp, "out.00.records"), os.path.join(tmp, "out.01.records")]
        else:
            uri = url_for(target, tmp)
            readers = [uri]

        def run():
            with RecordWriter(uri) as w:
                for r in recs:
                    w.write(r)

        res = impl(run)
        if not res.ok:
            raise Violation("large/%s/write-raised" % target, "%d-byte %s value: %r" % (n, field, res), detail=res.type)

        def rd():
            out = []
            for u in readers:
                r = RecordReader(u)
                try:
                    out.extend((int(x.n), len(x.blob), hash(x.blob)) for x in r)
                finally:
                    r.close()
            return out

        got = impl(rd)
        want = [(int(x.n), len(x.blob), hash(x.blob)) for x in recs]
        if not got.ok:
            raise Violation("large/%s/read-raised" % target, "%d-byte %s value: reading back raised %r" % (n, field, got),
                            detail=got.type)
        if got.value != want:
            raise Violation("large/%s/records-differ" % target, "%d-byte %s value: wrote (n, len) %r, read %r"
                            % (n, field, [w_[:2] for w_ in want], [g[:2] for g in got.value]))
    finally:
        shutil.rmtree(tmp, ignore_errors=True)


def parts(tier):
    return [
        Part("histories", check_history, cases=history_cases, exhaustive=True),
        Part("split-grid", check_split, cases=split_cases, exhaustive=True),
        Part("split-blocked-part", check_blocked_part, cases=blocked_part_cases, exhaustive=True),
        Part("large-records", check_large_record, cases=large_cases, exhaustive=True),
        Part("rotation", check_rotation, strategy=rotation_case(), examples=(150, 8000)),
    ]
