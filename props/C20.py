"""C20 - Text-oriented writers render every record completely."""
import csv
import io
import os
import shutil
import string as _string

from hypothesis import strategies as st

from vlib import gen
from vlib.runner import Part, Violation, impl

LEVEL = "exploration"
RULE = (
    "Generated records over all field types with cells containing delimiters, quotes, CR, LF, NUL, unicode and "
    "surrogate escapes x options fields / exclude / lineterminator in {default, \\r\\n, \\n, \\r} / verbose / format_spec "
    "templates assembled from literal segments, {field}, {field:spec} and {missing} references. Oracle: CSV: "
    "csv.reader over the written file gives, per run of one descriptor, the header of the selected field names and "
    "one row per record whose cells equal str(value) ('' for None); line: output equals independently assembled "
    "numbered blocks with one right-aligned 'name = value' line per selected field ('name (type)' when verbose); "
    "text: exactly repr(record) + newline or the template result assembled independently; no writer raises for a "
    "valid record. CSV reading: files produced with the stdlib writer (delimiter in , ; tab |, safe cells, >=2 "
    "columns and rows, kept only if the stdlib Sniffer recovers the delimiter) read back as records with the same "
    "text values. Non-trivial = >=1 record with a non-None field; distinct by case digest."
    " Also: CSV headers named like Python keywords."
)
ASSUMPTIONS = [
    "'text form' of a value is str(value) / format(value, spec) of the field value itself",
    "'unambiguous CSV content' = the stdlib csv.Sniffer recovers the delimiter",
]

TERMS = [None, "\r\n", "\n", "\r", "\\n", "\\r\\n"]
csv.field_size_limit(2**31 - 1)


@st.composite
def records_case(draw, writer):
    nd = draw(st.integers(1, 2))
    descs = [draw(gen.descriptor_spec(1, None, max_fields=4)) for _ in range(nd)]
    n = draw(st.integers(1, 5))
    recs = [draw(gen.record_spec(1, desc=descs[draw(st.integers(0, nd - 1))])) for _ in range(n)]
    if writer in ("csv", "line") and draw(st.integers(0, 5)) == 0 and len(recs) >= 2:
        # a grouped record (flat view over two members) among the plain ones
        recs.insert(draw(st.integers(0, len(recs))), {"grouped": [recs[0], recs[-1]], "name": draw(gen.type_name())})
    allnames = sorted({f for d in descs for _, f in d[1]})
    pool = allnames + ["nope", "_source", "_generated"]
    case = {
        "recs": recs,
        "fields": draw(st.one_of(st.none(), st.lists(st.sampled_from(pool), min_size=1, max_size=4, unique=True))),
        "exclude": draw(st.one_of(st.none(), st.lists(st.sampled_from(pool), min_size=1, max_size=2, unique=True))),
    }
    # the selection may arrive as a list (API) or as a comma-separated string (URI query / rdump)
    case["as_string"] = draw(st.booleans())
    if writer == "csv":
        case["term"] = draw(st.sampled_from(TERMS))
    if writer == "line":
        case["verbose"] = draw(st.booleans())
    if writer == "text":
        segs = []
        for _ in range(draw(st.integers(0, 5))):
            k = draw(st.integers(0, 3))
            if k == 0:
                segs.append(("lit", draw(st.one_of(
                    st.text(st.sampled_from("ab :-|,\t\"'é"), max_size=5),
                    # text that is not ASCII, and backslash sequences other than the three the writer documents
                    # (\\r \\n \\t): literal text of the template, reproduced as it is
                    st.sampled_from(["\u2192 \u20ac", "\u65e5\u672c", "\U0001f600", "\\x41", "\\u20ac", "\\0", "\\a", "caf\u00e9 \\d+"])))))
            elif k == 1:
                segs.append(("field", draw(st.sampled_from(pool)), ""))
            elif k == 2:
                segs.append(("field", draw(st.sampled_from(pool)), draw(st.sampled_from(["", ">10", "<5", "^8"]))))
            else:
                segs.append(("lit", draw(st.sampled_from(["\\n", "\\t", "\\r"]))))
        # replacement fields that are more than a bare name: attribute access, indexing, nested spec
        fl = [f for f in descs[0][1]]
        for _ in range(draw(st.integers(0, 2))):
            if not fl:
                break
            t, n = fl[draw(st.integers(0, len(fl) - 1))]
            if t == "datetime":
                segs.append(("expr", n, draw(st.sampled_from([".year", ".microsecond", ".tzinfo"])), ""))
            elif t.endswith("[]") or t in ("stringlist", "string", "wstring", "bytes"):
                segs.append(("expr", n, draw(st.sampled_from(["[0]", "[1]"])), ""))
            elif t in ("varint", "uint16", "uint32", "filesize"):
                segs.append(("expr", n, draw(st.sampled_from([".real", ".imag"])), draw(st.sampled_from(["", ">6"]))))
                segs.append(("nested", n, draw(st.sampled_from(allnames))))
            elif t == "uri":
                segs.append(("expr", n, draw(st.sampled_from([".scheme", ".hostname", ".filename"])), ""))
            elif t == "path":
                segs.append(("expr", n, draw(st.sampled_from([".name", ".parent", ".suffix"])), ""))
            elif t == "digest":
                segs.append(("expr", n, draw(st.sampled_from([".md5", ".sha256"])), ""))
        case["template"] = segs if draw(st.booleans()) else None
        case.pop("fields")
        case.pop("exclude")
    return case


def _sel(case, key):
    v = case[key]
    if v and case.get("as_string"):
        return ",".join(v)
    return v


def selected(rec, fields, exclude):
    exclude = exclude or []
    if hasattr(rec, "fieldname_to_record"):
        # flat view of a grouped record: fields in order of first appearance, first member wins
        slots = []
        for r in rec.records:
            for k in list(r.__slots__):
                if k not in slots:
                    slots.append(k)
        slots = [k for k in slots if not k.startswith("_")] + [k for k in slots if k.startswith("_")] if False else slots
    else:
        slots = list(rec.__slots__)
    if fields:
        return [k for k in fields if k in slots and k not in exclude]
    return [k for k in slots if k not in exclude]


def _build_one(s):
    from flow.record import GroupedRecord

    if "grouped" in s:
        return GroupedRecord(s["name"], [gen.build_record(x) for x in s["grouped"]])
    return gen.build_record(s)


def build(case, ctx):
    built = impl(lambda: [_build_one(s) for s in case["recs"]])
    if not built.ok:
        ctx.cls("discarded:constructor-raised:" + built.type)
        return None
    labels = set()
    for s in case["recs"]:
        if "grouped" in s:
            labels.add("grouped-record")
            continue
        gen.classify_record(s, labels)
    ctx.cls(*labels)
    if any(v is not None for s in case["recs"] if "grouped" not in s for v in s["vals"]):
        ctx.nontriv()
    return built.value


def blame(rec, names):
    """Field type of the first value whose text form cannot be produced (for signatures)."""
    types = dict((n, t) for t, n in rec._desc.get_field_tuples())
    for n in names:
        try:
            str(getattr(rec, n))
            repr(getattr(rec, n))
        except Exception:
            return types.get(n, n)
    return "none"


def check_csv(case, ctx):
    from flow.record.adapter.csvfile import CsvfileWriter

    records = build(case, ctx)
    if records is None:
        return
    term = case["term"]
    ctx.cls("term:%r" % term, "fields:%s" % bool(case["fields"]), "exclude:%s" % bool(case["exclude"]))
    tmp = ctx.fresh_dir()
    try:
        p = os.path.join(tmp, "o.csv")

        def write():
            w = CsvfileWriter(p, fields=_sel(case, "fields"), exclude=_sel(case, "exclude"), lineterminator=term)
            try:
                for r in records:
                    w.write(r)
                w.flush()
            finally:
                w.close()

        res = impl(write)
        if not res.ok:
            allnames = [n for r in records for n in r.__slots__]
            b = next((blame(r, selected(r, case["fields"], case["exclude"])) for r in records
                      if blame(r, selected(r, case["fields"], case["exclude"])) != "none"), "none")
            raise Violation("csv/write-raised/" + res.type, "CSV writer raised %r" % (res,), detail=b)
        # expected rows
        exp = []
        prev = None
        cur = None
        for r in records:
            keys = selected(r, case["fields"], case["exclude"])
            if prev is None or prev != r._desc:
                exp.append(list(keys))
                prev = r._desc
                cur = list(keys)
            elif set(keys) == set(cur):
                # same record type, no new header: the row follows the columns of the header in force (a grouped
                # record and a plain record of an equal flat type list the same keys in different orders)
                keys = cur
            exp.append(["" if getattr(r, k) is None else str(getattr(r, k)) for k in keys])
        with open(p, newline="", encoding="utf-8", errors="surrogateescape") as f:
            got = list(csv.reader(f))
        # csv.reader returns [] for a row that consisted of a single empty cell
        exp_n = [row for row in exp if row != [""] and row != []]
        got_n = [row for row in got if row != [] and row != [""]]
        if got_n != exp_n:
            real_term = (term or "\r\n").replace("\\r", "\r").replace("\\n", "\n")
            cells = [c for row in exp for c in row]
            lb = {"\r", "\n"} - set(real_term)
            why = "linebreak-cell-unquoted" if any(ch in c for c in cells for ch in lb) else "other"
            raise Violation("csv/parsed-rows-differ", "lineterminator %r: a standard CSV parser reads %r, expected %r"
                            % (term, got_n[:4], exp_n[:4]), detail=why)
    finally:
        shutil.rmtree(tmp, ignore_errors=True)


def check_line(case, ctx):
    from flow.record.adapter.line import LineWriter

    records = build(case, ctx)
    if records is None:
        return
    verbose = case["verbose"]
    ctx.cls("verbose:%s" % verbose)
    tmp = ctx.fresh_dir()
    try:
        p = os.path.join(tmp, "o.txt")

        def write():
            w = LineWriter(p, fields=_sel(case, "fields"), exclude=_sel(case, "exclude"), verbose=verbose)
            try:
                for r in records:
                    w.write(r)
                w.flush()
            finally:
                w.close()

        res = impl(write)
        if not res.ok:
            b = next((blame(r, selected(r, case["fields"], case["exclude"])) for r in records
                      if blame(r, selected(r, case["fields"], case["exclude"])) != "none"), "none")
            raise Violation("line/write-raised/" + res.type, "line writer raised %r" % (res,), detail=b)
        exp = ""
        for i, r in enumerate(records, 1):
            keys = selected(r, case["fields"], case["exclude"])
            types = dict((n, t) for t, n in r._desc.get_field_tuples())
            types.update({"_source": "string", "_classification": "string", "_generated": "datetime", "_version": "varint"})
            labels = ["%s (%s)" % (k, types[k]) if verbose else k for k in keys]
            width = max([len(x) for x in labels] or [0])
            exp += "--[ RECORD %d ]--\n" % i
            for k, lab in zip(keys, labels):
                exp += "%s = %s\n" % (lab.rjust(width), format(getattr(r, k), "") if getattr(r, k) is not None else "None")
        got = open(p, "rb").read()
        expb = exp.encode("utf-8", "surrogateescape")
        if got != expb:
            raise Violation("line/output-differs", "line output %r, expected %r" % (got[:300], expb[:300]))
    finally:
        shutil.rmtree(tmp, ignore_errors=True)


def check_text(case, ctx):
    from flow.record.adapter.text import TextWriter

    records = build(case, ctx)
    if records is None:
        return
    segs = case["template"]
    ctx.cls("template:%s" % (segs is not None))
    tmp = ctx.fresh_dir()
    try:
        p = os.path.join(tmp, "o.txt")
        spec = None
        if segs is not None:
            def seg_src(s):
                if s[0] == "lit":
                    return s[1].replace("{", "{{").replace("}", "}}")
                if s[0] == "field":
                    return "{%s%s}" % (s[1], (":" + s[2]) if s[2] else "")
                if s[0] == "expr":
                    return "{%s%s%s}" % (s[1], s[2], (":" + s[3]) if s[3] else "")
                return "{%s:>{%s}}" % (s[1], s[2])  # nested: the width comes from another field

            spec = "".join(seg_src(s) for s in segs)

        def write():
            w = TextWriter(p, format_spec=spec)
            try:
                for r in records:
                    w.write(r)
                w.flush()
            finally:
                w.close()

        exp = b""
        for r in records:
            if not spec:
                line = "<%s %s>" % (r._desc.name, " ".join("%s=%r" % (n, getattr(r, n)) for _, n in r._desc.get_field_tuples()))
            else:
                line = ""
                for s in segs:
                    if s[0] == "lit":
                        line += s[1].replace("\\r", "\r").replace("\\n", "\n").replace("\\t", "\t")
                    elif s[0] in ("expr", "nested"):
                        # Python's own meaning of the replacement field, evaluated piece by piece
                        if s[1] not in r.__slots__ or (s[0] == "nested" and s[2] not in r.__slots__):
                            ctx.cls("undefined:expr-on-missing")
                            return
                        try:
                            v = getattr(r, s[1])
                            if s[0] == "expr":
                                v = getattr(v, s[2][1:]) if s[2].startswith(".") else v[int(s[2][1:-1])]
                                line += format(v, s[3])
                            else:
                                width = format(getattr(r, s[2]), "")
                                if width.strip().lstrip("+-").isdigit() and abs(int(width)) > 4096:
                                    # a width of millions of characters is a resource question, not a rendering one
                                    ctx.cls("discarded:nested-width-too-large")
                                    return
                                line += format(v, ">" + width)
                        except Exception:
                            ctx.cls("undefined:expr-not-applicable")
                            return
                        ctx.cls("template:expr")
                    else:
                        name, fs = s[1], s[2]
                        if name in r.__slots__:
                            try:
                                line += format(getattr(r, name), fs)
                            except (TypeError, ValueError):
                                ctx.cls("undefined:spec-not-applicable")
                                return  # the spec does not apply to this value (e.g. alignment of None): undefined
                        else:
                            line += "{%s}" % name
                            if fs:
                                ctx.cls("undefined:spec-on-missing")
                                return  # a format spec applied to the placeholder text of a missing field: undefined
            exp += line.encode("utf-8", "surrogateescape") + b"\n"
        res = impl(write)
        if not res.ok:
            b = next((blame(r, list(r.__slots__)) for r in records if blame(r, list(r.__slots__)) != "none"), "none")
            raise Violation("text/write-raised/" + res.type, "text writer (template %r) raised %r" % (spec, res), detail=b)
        got = open(p, "rb").read()
        if got != exp:
            raise Violation("text/output-differs", "template %r: output %r expected %r" % (spec, got[:300], exp[:300]))
    finally:
        shutil.rmtree(tmp, ignore_errors=True)


SAFE = _string.ascii_letters + _string.digits + " _-."


@st.composite
def csv_read_case(draw):
    ncol = draw(st.integers(2, 5))
    nrow = draw(st.integers(2, 6))
    header = draw(st.lists(gen.ident(6), min_size=ncol, max_size=ncol, unique_by=lambda s: s.lower()))
    if draw(st.integers(0, 7)) == 0:
        # a WIDE file: the header row alone is about as long as (or longer than) the sample a reader may sniff
        # (1024 characters), the lengths around that mark in particular
        ncol = draw(st.sampled_from([60, 90, 128, 129, 130, 200]))
        target = draw(st.sampled_from([1000, 1020, 1021, 1022, 1023, 1024, 1025, 1026, 1100, 2047, 2048, 2049, 4000]))
        width = max(2, (target - (ncol - 1)) // ncol)
        header = [("c%d" % i).ljust(width, "x") for i in range(ncol)]
        slack = target - (sum(len(h) for h in header) + ncol - 1)
        if slack > 0:
            header[-1] += "y" * slack
        nrow = 2
    if draw(st.integers(0, 3)) == 0:
        # a column named like a Python keyword is a column like any other ('from', 'class', 'in' are common headers)
        kw = draw(st.sampled_from(["from", "class", "in", "is", "import", "def", "lambda", "not", "global", "pass"]))
        if kw not in [h.lower() for h in header]:
            header[draw(st.integers(0, ncol - 1))] = kw
    # cells may be empty, and so may every cell of a row (",,"): with two or more columns that is still a data row
    rows = [[draw(st.text(SAFE, min_size=draw(st.sampled_from([0, 1, 1])), max_size=8)) for _ in range(ncol)] for _ in range(nrow)]
    for i in draw(st.lists(st.integers(0, nrow - 1), max_size=2)):
        rows[i] = [""] * ncol
    return {"delim": draw(st.sampled_from([",", ";", "\t", "|", ",", ";", ":", " ", "^", "~", "#", "!"])), "header": header, "rows": rows}


def check_csv_read(case, ctx):
    from flow.record.adapter.csvfile import CsvfileReader

    buf = io.StringIO()
    w = csv.writer(buf, delimiter=case["delim"], lineterminator="\r\n")
    w.writerow(case["header"])
    for r in case["rows"]:
        w.writerow(r)
    text = buf.getvalue()
    try:
        d = csv.Sniffer().sniff(text[:1024])
        if d.delimiter != case["delim"] or d.quotechar not in ('"',) or d.skipinitialspace:
            ctx.cls("discarded:sniffer-ambiguous")
            return
        if list(csv.reader(io.StringIO(text), dialect=d)) != [case["header"]] + case["rows"]:
            ctx.cls("discarded:sniffer-ambiguous")
            return
    except csv.Error:
        ctx.cls("discarded:sniffer-failed")
        return
    ctx.cls("delim:%r" % case["delim"])
    if len(case["header"]) >= 60:
        ctx.cls("csv-read:wide-header:%d" % (sum(len(h) for h in case["header"]) + len(case["header"]) - 1))
    if any(not any(r) for r in case["rows"]):
        ctx.cls("csv-read:row-of-empty-cells")
    ctx.nontriv()
    tmp = ctx.fresh_dir()
    try:
        p = os.path.join(tmp, "in.csv")
        with open(p, "w", newline="") as f:
            f.write(text)

        def rd():
            r = CsvfileReader(p)
            try:
                return list(r)
            finally:
                r.close()

        res = impl(rd)
        if not res.ok:
            raise Violation("csv-reader/raised", "%r on %r" % (res, text[:200]), detail=res.type)
        if len(res.value) != len(case["rows"]):
            raise Violation("csv-reader/count", "%d rows, %d records" % (len(case["rows"]), len(res.value)))
        for row, rec in zip(case["rows"], res.value):
            names = [n for _, n in rec._desc.get_field_tuples()]
            if names != case["header"]:
                raise Violation("csv-reader/fields", "fields %r, header %r" % (names, case["header"]))
            vals = [getattr(rec, n) for n in names]
            if [str(v) for v in vals] != row:
                raise Violation("csv-reader/values", "row %r read as %r" % (row, vals))
    finally:
        shutil.rmtree(tmp, ignore_errors=True)


def parts(tier):
    return [
        Part("csv-writer", check_csv, strategy=records_case("csv"), examples=(150, 3000)),
        Part("line-writer", check_line, strategy=records_case("line"), examples=(100, 2000)),
        Part("text-writer", check_text, strategy=records_case("text"), examples=(100, 2000)),
        Part("csv-reader", check_csv_read, strategy=csv_read_case(), examples=(60, 1000)),
    ]
