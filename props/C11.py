"""C11 - Compression and container format are detected transparently."""
import bz2
import gzip
import io
import os
import shutil
import tempfile
import subprocess
import sys

from hypothesis import strategies as st

from vlib import gen, refcodec
from vlib.observe import diff, observe
from vlib.runner import REPO, Part, Violation, impl

LEVEL = "exploration"
RULE = (
    "Full matrix codec {none, gz, bz2, lz4, zst, zstd} x container {record stream, avro} x way of naming the source "
    "{path with the right extension / scheme, path whose name hides the codec, buffered file object, BytesIO, "
    "unbuffered raw file without peek(), standard input of an rdump subprocess} x generated record sequences. "
    "Oracle: the written file starts with the codec's magic; an independent decompressor (gzip, bz2, lz4.frame, "
    "zstandard) yields bytes that the reference codec (stream) or fastavro.reader (avro) decodes to the written "
    "records; the implementation returns records with equal deep observations for every way of naming the source, "
    "through the expected adapter class. Garbage (random bytes, codec signature + garbage, 'Obj' + garbage, text "
    "starting with '<') must raise and yield no record. Non-trivial = matrix cell with a compressed codec or a "
    "non-path source and >=1 record; distinct by (case digest, access way)."
    " Also: several writers of one codec open at once and written to in turn."
)
ASSUMPTIONS = [
    "'a standard decompressor' = the Python bindings gzip, bz2, lz4.frame, zstandard present in the sandbox",
    "avro cells use avro-mappable field types (value fidelity of avro is C19)",
]

CODECS = {
    "none": ("", b""),
    "gz": (".gz", b"\x1f\x8b"),
    "bz2": (".bz2", b"BZh"),
    "lz4": (".lz4", b"\x04\x22\x4d\x18"),
    "zst": (".zst", b"\x28\xb5\x2f\xfd"),
    "zstd": (".zstd", b"\x28\xb5\x2f\xfd"),
}


def decompress(codec, data):
    if codec == "none":
        return data
    if codec == "gz":
        return gzip.decompress(data)
    if codec == "bz2":
        return bz2.decompress(data)
    if codec == "lz4":
        import lz4.frame

        return lz4.frame.decompress(data)
    import zstandard

    return zstandard.ZstdDecompressor().decompressobj().decompress(data)


AVRO_FIELDS = (("string", "s"), ("varint", "n"), ("boolean", "b"), ("bytes", "raw"))


@st.composite
def avro_seq(draw):
    n = draw(st.integers(1, 6))
    recs = []
    for _ in range(n):
        recs.append(gen.M("plain", {
            "desc": ("t/avro", AVRO_FIELDS),
            "vals": [draw(st.one_of(st.none(), st.text(max_size=8))), draw(st.one_of(st.none(), st.integers(-2**40, 2**40))),
                     draw(st.one_of(st.none(), st.booleans())), draw(st.one_of(st.none(), st.binary(max_size=8)))],
            "src": draw(st.one_of(st.none(), st.text(max_size=5))),
            "cls": None,
            "gen": draw(gen.aware_datetimes().filter(lambda d: 1971 < d.year < 9000)),
        }))
    return recs


@st.composite
def matrix_case(draw):
    container = draw(st.sampled_from(["stream", "stream", "avro"]))
    codec = draw(st.sampled_from(list(CODECS)))
    if container == "stream":
        seq = draw(gen.sequence_spec(max_len=5, max_desc=3))
    else:
        seq = draw(avro_seq())
    # the output path may already hold an older, longer file (clobber is the default): it is replaced, not patched
    return {"container": container, "codec": codec, "seq": seq, "preexisting": draw(st.sampled_from([None, None, "longer"]))}


def read_all(factory):
    rd = factory()
    try:
        return type(rd).__name__, list(rd)
    finally:
        try:
            rd.close()
        except Exception:
            pass


class NoPeekRaw(io.RawIOBase):
    """Unbuffered raw file without peek()."""

    def __init__(self, data):
        super().__init__()
        self._b = io.BytesIO(data)

    def readable(self):
        return True

    def readinto(self, b):
        d = self._b.read(len(b))
        b[: len(d)] = d
        return len(d)


def _adapter_reader(container):
    if container == "stream":
        from flow.record.adapter.stream import StreamReader

        return StreamReader
    from flow.record.adapter.avro import AvroReader

    return AvroReader


def _rewound(f):
    f.seek(0)
    return f


def _filled(f, data):
    f.write(data)
    f.seek(0)
    return f


def check_matrix(case, ctx):
    from flow.record import RecordReader, RecordWriter

    built = impl(lambda: [gen.build_any_record(m) for m in case["seq"]])
    if not built.ok:
        ctx.cls("discarded:constructor-raised:" + built.type)
        return
    records = built.value
    container, codec = case["container"], case["codec"]
    ext, magic = CODECS[codec]
    ctx.cls("cell:%s/%s" % (container, codec))
    tmp = ctx.fresh_dir()
    base = "%s/%s" % (container, codec)
    try:
        if container == "stream":
            path = os.path.join(tmp, "out.records" + ext)
            url = path
            hidden_url_prefix = ""
            expect_cls = "StreamReader"
        else:
            path = os.path.join(tmp, "out.avro" + ext)
            url = "avro://" + path
            hidden_url_prefix = "avro://"
            expect_cls = "AvroReader"
        if case.get("preexisting"):
            ctx.cls("output-path:preexisting-longer-file")
            with open(path, "wb") as f:
                f.write(b"\xaa" * (4 << 20))
        w = RecordWriter(url)
        try:
            for r in records:
                w.write(r)
            w.flush()
        finally:
            w.close()
        data = open(path, "rb").read()
        if case.get("preexisting") and len(data) >= (4 << 20) and data.endswith(b"\xaa" * 64):
            raise Violation(base + "/old-content-left", "the %d-byte file that was at the output path is still partly there "
                            "(%d bytes now, old tail present)" % (4 << 20, len(data)))
        if not data.startswith(magic):
            raise Violation(base + "/wrong-magic", "file written to %s starts with %r, expected %r"
                            % (os.path.basename(path), data[:6], magic))
        plain = impl(decompress, codec, data)
        if not plain.ok:
            raise Violation(base + "/standard-decompressor-rejects", "%s: %r" % (os.path.basename(path), plain))
        expected = [observe(r) for r in records]
        # independent decoding of the decompressed bytes
        if container == "stream":
            try:
                _, models = refcodec.decode_stream(plain.value)
            except refcodec.FormatError as e:
                raise Violation(base + "/not-a-record-stream", "decompressed bytes: %s" % e)
            exp_models = [refcodec.record_model(r) for r in records]
            if models != exp_models:
                raise Violation(base + "/independent-decode-differs", diff(tuple(exp_models), tuple(models)))
        else:
            import fastavro

            rows = list(fastavro.reader(io.BytesIO(plain.value)))
            if len(rows) != len(records):
                raise Violation(base + "/independent-decode-differs", "fastavro sees %d rows, wrote %d" % (len(rows), len(records)))
            for row, r in zip(rows, records):
                for k in ("s", "n", "b", "raw"):
                    v = getattr(r, k)
                    v = None if v is None else (bool(v) if k == "b" else bytes(v) if k == "raw" else str(v) if k == "s" else int(v))
                    if row.get(k) != v:
                        raise Violation(base + "/independent-decode-differs", "field %s: %r != %r" % (k, row.get(k), v))
            # avro value fidelity is C19: compare the access ways against the plain-path reading
            _, ref = read_all(lambda: RecordReader(url))
            expected = [observe(r) for r in ref]
            if len(ref) != len(records):
                raise Violation(base + "/path/count", "wrote %d read %d" % (len(records), len(ref)))
        hidden = os.path.join(tmp, "hidden.bin")
        shutil.copy(path, hidden)
        ways = [
            ("path", lambda: RecordReader(url)),
            ("hidden-name", lambda: RecordReader(hidden_url_prefix + hidden)),
            ("buffered-file", lambda: RecordReader(fileobj=open(path, "rb"))),
            ("bytesio", lambda: RecordReader(fileobj=io.BytesIO(data))),
            ("raw-nopeek", lambda: RecordReader(fileobj=NoPeekRaw(data))),
            ("unbuffered-file", lambda: RecordReader(fileobj=open(path, "rb", buffering=0))),
            # read/write file objects positioned at the start: their .mode does not start with 'r'
            ("rplus-file", lambda: RecordReader(fileobj=open(path, "r+b"))),
            ("aplus-file-rewound", lambda: RecordReader(fileobj=_rewound(open(path, "a+b")))),
            ("wplus-file-refilled", lambda: RecordReader(fileobj=_filled(open(os.path.join(tmp, "wplus.bin"), "w+b"), data))),
            ("spooled-tempfile", lambda: RecordReader(fileobj=_filled(tempfile.SpooledTemporaryFile(max_size=1 << 30), data))),
            ("tempfile", lambda: RecordReader(fileobj=_filled(tempfile.TemporaryFile(), data))),
            # the adapter's reader class handed the open file object directly
            ("adapter-class-fileobj", lambda: _adapter_reader(container)(io.BytesIO(data))),
            ("adapter-class-file", lambda: _adapter_reader(container)(open(path, "rb"))),
        ]
        for wname, factory in ways:
            res = impl(read_all, factory)
            ctx.count(1)
            if records and (codec != "none" or wname != "path"):
                ctx.nontriv(wname)
            if not res.ok:
                raise Violation("%s/%s/raised:%s" % (base, wname, res.type), "reading via %s raised %r" % (wname, res))
            cls, got = res.value
            if cls != expect_cls:
                raise Violation("%s/%s/wrong-adapter" % (base, wname), "adapter %s, expected %s" % (cls, expect_cls))
            og = [observe(r) for r in got]
            if og != expected:
                raise Violation("%s/%s/records-differ" % (base, wname), "via %s: %s" % (wname, diff(tuple(expected), tuple(og))))
    finally:
        shutil.rmtree(tmp, ignore_errors=True)


# ---------------------------------------------------------------------------------------------
# files compressed by the codecs' own tools (other levels, streaming mode, checksums, several frames / members)


def _zs_stream(plain, level, **kw):
    import zstandard

    params = zstandard.ZstdCompressionParameters.from_level(level, **kw)
    c = zstandard.ZstdCompressor(compression_params=params).compressobj()
    return c.compress(plain) + c.flush()


def _split2(fn, plain):
    h = len(plain) // 2
    return fn(plain[:h]) + fn(plain[h:])


def _gz_named(plain):
    b = io.BytesIO()
    g = gzip.GzipFile(filename="orig.records", fileobj=b, mode="wb", mtime=12345)
    g.write(plain)
    g.close()
    return b.getvalue()


def foreign_variants():
    import lz4.frame
    import zstandard

    return {
        "zst/level1": lambda p: zstandard.ZstdCompressor(level=1).compress(p),
        "zst/level22": lambda p: zstandard.ZstdCompressor(level=22).compress(p),
        "zst/level3-streaming": lambda p: _zs_stream(p, 3),
        "zst/level19-streaming": lambda p: _zs_stream(p, 19),
        "zst/level22-streaming": lambda p: _zs_stream(p, 22),
        "zst/long-distance-window27": lambda p: _zs_stream(p, 3, enable_ldm=True, window_log=27),
        "zst/checksum": lambda p: zstandard.ZstdCompressor(level=3, write_checksum=True).compress(p),
        "zst/no-content-size": lambda p: zstandard.ZstdCompressor(level=3, write_content_size=False).compress(p),
        "zst/two-frames": lambda p: _split2(zstandard.ZstdCompressor().compress, p),
        "gz/level1": lambda p: gzip.compress(p, 1),
        "gz/level9": lambda p: gzip.compress(p, 9),
        "gz/with-filename": _gz_named,
        "gz/two-members": lambda p: _split2(gzip.compress, p),
        "bz2/level1": lambda p: bz2.compress(p, 1),
        "bz2/two-streams": lambda p: _split2(bz2.compress, p),
        "lz4/default": lambda p: lz4.frame.compress(p),
        "lz4/checksums-4MB-unlinked": lambda p: lz4.frame.compress(p, content_checksum=True, block_checksum=True,
                                                                     block_linked=False, store_size=True,
                                                                     block_size=lz4.frame.BLOCKSIZE_MAX4MB),
        "lz4/high-compression": lambda p: lz4.frame.compress(p, compression_level=12),
        "lz4/two-frames": lambda p: _split2(lz4.frame.compress, p),
    }


def foreign_cases(tier):
    cases = [{"variant": v, "container": c, "n": n} for v in foreign_variants() for c in ("stream", "avro") for n in (1, 40)]
    # two complete record streams joined (cat a.records b.records), each compressed on its own or joined first
    for codec in ("none", "gz", "bz2", "lz4", "zst"):
        for how in ("each-compressed", "joined-then-compressed"):
            if codec == "none" and how != "each-compressed":
                continue
            for n in (0, 3):
                cases.append({"variant": "%s/cat-two-streams:%s" % (codec, how), "container": "stream", "n": n, "cat": how})
    return cases


def check_foreign(case, ctx):
    """The same valid compressed file must read the same through every way of naming it, whoever compressed it."""
    from flow.record import RecordDescriptor, RecordReader, RecordWriter

    variant, container = case["variant"], case["container"]
    codec = variant.split("/")[0]
    ext = CODECS[codec][0]
    ctx.cls("foreign:" + variant, "container:" + container)
    desc = RecordDescriptor("t/foreign", [("string", "s"), ("varint", "n"), ("bytes", "raw")])
    g = gen_dt()
    records = [desc("v%d" % i, i, bytes([i % 251]) * (i % 7), _generated=g) for i in range(case["n"])]
    tmp = ctx.fresh_dir()
    try:
        plain_path = os.path.join(tmp, "plain.records" if container == "stream" else "plain.avro")
        pre = "" if container == "stream" else "avro://"
        w = RecordWriter(pre + plain_path)
        for r in records:
            w.write(r)
        w.flush()
        w.close()
        plain = open(plain_path, "rb").read()
        _, ref = read_all(lambda: RecordReader(pre + plain_path))
        expected = [observe(r) for r in ref]
        if len(ref) != len(records):
            # plain, uncompressed reading already loses records: C01's matter, nothing to compare the codecs with
            ctx.cls("abandoned:plain-reading-incomplete")
            return
        if case.get("cat"):
            # a second complete stream (own header, own descriptor frames) behind the first
            second = [desc("w%d" % i, 100 + i, b"", _generated=g) for i in range(case["n"] + 1)]
            p2 = os.path.join(tmp, "second.records")
            w = RecordWriter(p2)
            for r in second:
                w.write(r)
            w.flush()
            w.close()
            plain2 = open(p2, "rb").read()
            expected = expected + [observe(r) for r in second]
            comp = {"none": lambda b: b, "gz": gzip.compress, "bz2": bz2.compress,
                    "lz4": __import__("lz4.frame").frame.compress,
                    "zst": __import__("zstandard").ZstdCompressor().compress}[codec]
            data = comp(plain) + comp(plain2) if case["cat"] == "each-compressed" else comp(plain + plain2)
        else:
            data = foreign_variants()[variant](plain)
            if decompress(codec, data) != plain if "two-" not in variant else False:
                raise RuntimeError("harness: variant %s does not decompress to the input" % variant)
        named = os.path.join(tmp, ("f.records" if container == "stream" else "f.avro") + ext)
        hidden = os.path.join(tmp, "hidden.bin")
        for p_ in (named, hidden):
            with open(p_, "wb") as f:
                f.write(data)
        ways = [
            ("path", lambda: RecordReader(pre + named)),
            ("hidden-name", lambda: RecordReader(pre + hidden)),
            ("bytesio", lambda: RecordReader(fileobj=io.BytesIO(data))),
            ("buffered-file", lambda: RecordReader(fileobj=open(named, "rb"))),
            ("raw-nopeek", lambda: RecordReader(fileobj=NoPeekRaw(data))),
        ]
        for wname, factory in ways:
            res = impl(read_all, factory)
            ctx.count(1)
            ctx.nontriv((variant, container, wname, case["n"]))
            if not res.ok:
                raise Violation("foreign/%s/%s/%s/raised:%s" % (codec, container, wname, res.type),
                                "%s: reading via %s raised %r" % (variant, wname, res), detail=variant.split("/")[1])
            og = [observe(r) for r in res.value[1]]
            if og != expected:
                raise Violation("foreign/%s/%s/%s/records-differ" % (codec, container, wname),
                                "%s via %s: %s" % (variant, wname, diff(tuple(expected), tuple(og))), detail=variant.split("/")[1])
    finally:
        shutil.rmtree(tmp, ignore_errors=True)


def gen_dt():
    import datetime as _d

    return _d.datetime(2021, 3, 4, 5, 6, 7, tzinfo=_d.timezone.utc)


def check_stdin(case, ctx):
    """Standard input of a real rdump subprocess (codec and container sniffed from the pipe)."""
    from flow.record import RecordReader, RecordWriter

    built = impl(lambda: [gen.build_any_record(m) for m in case["seq"]])
    if not built.ok:
        return
    records = built.value
    container, codec = case["container"], case["codec"]
    ext, _ = CODECS[codec]
    tmp = ctx.fresh_dir()
    base = "%s/%s/stdin" % (container, codec)
    try:
        path = os.path.join(tmp, ("out.records" if container == "stream" else "out.avro") + ext)
        url = path if container == "stream" else "avro://" + path
        w = RecordWriter(url)
        for r in records:
            w.write(r)
        w.flush()
        w.close()
        _, ref = read_all(lambda: RecordReader(url))
        outp = os.path.join(tmp, "fromstdin.records")
        env = dict(os.environ, PYTHONPATH=REPO)
        with open(path, "rb") as f:
            p = subprocess.run([sys.executable, "-m", "flow.record.tools.rdump", case.get("stdin_name", "-"), "-w", outp], stdin=f,
                               stdout=subprocess.PIPE, stderr=subprocess.PIPE, env=env, timeout=120)
        ctx.cls("cell:%s/%s" % (container, codec), "stdin-named:%s" % case.get("stdin_name", "-"))
        if records:
            ctx.nontriv()
        if case.get("stdin_name", "-") != "-":
            base += "/" + case["stdin_name"].split(":")[0] + "-scheme"
        if p.returncode != 0 or not os.path.exists(outp):
            raise Violation(base + "/rdump-failed", "rc=%s stderr=%s" % (p.returncode, p.stderr[-400:].decode("utf8", "replace")))
        _, got = read_all(lambda: RecordReader(outp))
        oa, ob = [observe(r) for r in ref], [observe(r) for r in got]
        if oa != ob:
            raise Violation(base + "/records-differ", "%s; stderr=%s" % (diff(tuple(oa), tuple(ob)), p.stderr[-300:].decode("utf8", "replace")))
    finally:
        shutil.rmtree(tmp, ignore_errors=True)


@st.composite
def interleave_case(draw):
    container = draw(st.sampled_from(["stream", "stream", "avro"]))
    return {"container": container, "codec": draw(st.sampled_from(list(CODECS))),
            "seqs": [draw(gen.sequence_spec(max_len=6, max_desc=2, grouped=False)) if container == "stream" else draw(avro_seq())
                     for _ in range(draw(st.integers(2, 3)))],
            "ways": [draw(st.sampled_from(["path", "hidden-name", "bytesio", "buffered-file"])) for _ in range(3)],
            "big": draw(st.booleans()),
            # the sources may also have been WRITTEN side by side (several writers of one codec open at once)
            "written_side_by_side": draw(st.booleans())}


def check_interleaved(case, ctx):
    """Several sources of one codec open at the same time and read alternately must each return what they return
    when read alone (readers must not share decoder state)."""
    from flow.record import RecordDescriptor, RecordReader, RecordWriter

    container, codec = case["container"], case["codec"]
    ext, _ = CODECS[codec]
    ctx.cls("cell:%s/%s" % (container, codec))
    tmp = ctx.fresh_dir()
    base = "%s/%s/interleaved" % (container, codec)
    try:
        urls, datas, paths = [], [], []
        filler = RecordDescriptor("t/filler", [("bytes", "blob")])
        side = case.get("written_side_by_side") and not case["big"]
        if side:
            ctx.cls("writers-open-side-by-side")
            builts = []
            for seq in case["seqs"]:
                built = impl(lambda: [gen.build_any_record(m) for m in seq])
                if not built.ok:
                    return
                builts.append(built.value)
            if container == "avro":
                # (one record type per Avro file: keep the records of the first record's type)
                builts = [[r for r in b if not hasattr(r, "records") and r._desc == b[0]._desc] if b and not hasattr(b[0], "records")
                          else [] for b in builts]
            writers = []
            for i in range(len(builts)):
                name = ("s%d.records" % i if container == "stream" else "s%d.avro" % i) + ext
                p = os.path.join(tmp, name)
                url = p if container == "stream" else "avro://" + p
                urls.append(url)
                paths.append(p)
                writers.append(RecordWriter(url))
            for k in range(max([len(b) for b in builts] + [0])):
                for w, b in zip(writers, builts):
                    if k < len(b):
                        res = impl(w.write, b[k])
                        if not res.ok:
                            for w2 in writers:
                                impl(w2.close)
                            ctx.cls("side-by-side:write-refused")
                            return
            for w in writers:
                impl(w.flush)
                w.close()
            for i, p in enumerate(paths):
                datas.append(open(p, "rb").read())
                got = impl(lambda: read_all(lambda: RecordReader(urls[i]))[1])
                want = [observe(r) for r in builts[i]]
                if not got.ok or ([observe(r) for r in got.value] != want and container == "stream"):
                    raise Violation(base + "/written-side-by-side", "%d %s writers open at once, written to in turn: source %d "
                                    "reads back %s, %d records were written to it"
                                    % (len(paths), codec, i, ("%d records" % len(got.value)) if got.ok else repr(got), len(want)),
                                    detail="raised" if not got.ok else "content")
                if got.ok and container == "avro" and len(got.value) != len(want):
                    raise Violation(base + "/written-side-by-side", "%d %s Avro writers open at once: source %d holds %d records, "
                                    "%d were written" % (len(paths), codec, i, len(got.value), len(want)), detail="count")
        for i, seq in enumerate(case["seqs"] if not side else []):
            built = impl(lambda: [gen.build_any_record(m) for m in seq])
            if not built.ok:
                return
            name = ("s%d.records" % i if container == "stream" else "s%d.avro" % i) + ext
            p = os.path.join(tmp, name)
            url = p if container == "stream" else "avro://" + p
            w = RecordWriter(url)
            for r in built.value:
                w.write(r)
            if case["big"] and container == "stream":
                # enough data that a reader cannot have buffered the whole source before the next one is opened
                import hashlib

                for k in range(40):
                    blob = b"".join(hashlib.sha256(b"%d-%d-%d" % (i, k, j)).digest() for j in range(64))
                    w.write(filler(blob))
            w.flush()
            w.close()
            urls.append(url)
            paths.append(p)
            datas.append(open(p, "rb").read())
        alone = []
        for url in urls:
            _, recs = read_all(lambda: RecordReader(url))
            alone.append([observe(r) for r in recs])
        ctx.nontriv()

        def open_way(i):
            way = case["ways"][i % len(case["ways"])]
            if way == "path":
                return RecordReader(urls[i])
            if way == "hidden-name":
                hp = os.path.join(tmp, "hidden%d.bin" % i)
                shutil.copy(paths[i], hp)
                return RecordReader(("avro://" if container == "avro" else "") + hp)
            if way == "bytesio":
                return RecordReader(fileobj=io.BytesIO(datas[i]))
            return RecordReader(fileobj=open(paths[i], "rb"))

        def run():
            readers = [open_way(i) for i in range(len(urls))]
            its = [iter(r) for r in readers]
            outs = [[] for _ in urls]
            live = list(range(len(urls)))
            while live:
                for i in list(live):
                    try:
                        outs[i].append(observe(next(its[i])))
                    except StopIteration:
                        live.remove(i)
            for r in readers:
                try:
                    r.close()
                except Exception:
                    pass
            return outs

        res = impl(run)
        if not res.ok:
            raise Violation(base + "/raised", "reading %d open %s sources alternately raised %r" % (len(urls), codec, res), detail=res.type)
        for i, (a, b) in enumerate(zip(alone, res.value)):
            if a != b:
                raise Violation(base + "/records-differ", "source %d read alternately with the others differs from reading it "
                                "alone: %s" % (i, diff(tuple(a), tuple(b))))
    finally:
        shutil.rmtree(tmp, ignore_errors=True)


SIGS = [b"\x1f\x8b", b"BZh", b"\x04\x22\x4d\x18", b"\x28\xb5\x2f\xfd", b"Obj", b"Obj\x01", b"<", b"<test/record a=1>\n"]


@st.composite
def garbage_case(draw):
    kind = draw(st.sampled_from(["random", "signature+garbage", "empty", "text", "stream-header+text"]))
    if kind == "stream-header+text":
        # the 19-byte header of a record stream followed by something that is not a frame at all (printable text
        # of six or more characters): not a record stream either, and not an empty one
        junk = draw(st.text(st.characters(min_codepoint=0x20, max_codepoint=0x7E), min_size=6, max_size=60)).encode()
        way = draw(st.sampled_from(["bytesio", "path", "hidden-path", "buffered-file"]))
        data = refcodec.HEADER_FRAME + junk
        codec = draw(st.sampled_from(["none", "none", "gz", "bz2"]))
        if codec == "gz":
            data = gzip.compress(data)
        elif codec == "bz2":
            data = bz2.compress(data)
        return {"data": data, "kind": kind, "way": way}
    if kind == "random":
        data = draw(st.binary(min_size=1, max_size=80))
    elif kind == "signature+garbage":
        data = draw(st.sampled_from(SIGS)) + draw(st.binary(max_size=60))
    elif kind == "empty":
        data = b""
    else:
        data = draw(st.text(max_size=60)).encode("utf8", "surrogatepass")
    if b"RECORDSTREAM\n" in data:
        data = data.replace(b"RECORDSTREAM\n", b"recordstream\n")
    return {"data": data, "kind": kind, "way": draw(st.sampled_from(["bytesio", "path", "hidden-path", "buffered-file"]))}


def check_garbage(case, ctx):
    from flow.record import RecordReader

    data, way = case["data"], case["way"]
    is_sig = any(data.startswith(s) for s in SIGS[:5])
    ctx.cls("garbage:" + case["kind"], "way:" + way, "starts-with-signature" if is_sig else "no-signature")
    ctx.nontriv()
    tmp = ctx.fresh_dir()
    try:
        p = os.path.join(tmp, "g.records" if way == "path" else "g.bin")
        with open(p, "wb") as f:
            f.write(data)
        got = []

        def run():
            if way == "bytesio":
                rd = RecordReader(fileobj=io.BytesIO(data))
            elif way == "buffered-file":
                rd = RecordReader(fileobj=open(p, "rb"))
            else:
                rd = RecordReader(p)
            for r in rd:
                got.append(r)

        res = impl(run)
        if got:
            raise Violation("garbage/%s/misread-as-records" % way, "%r yielded %d records: %r" % (data[:40], len(got), got[:1]))
        if not res.ok and isinstance(res.exc, (ImportError, NameError, AttributeError)):
            # "refused with an adapter-not-found or format error": an import / name / attribute error is the dispatch
            # falling over, not a refusal of the input
            raise Violation("garbage/%s/not-a-refusal" % way, "%r ended in %r" % (data[:40], res), detail=res.type)
        if res.ok:
            raise Violation("garbage/%s/accepted-silently" % way, "%r was read without an error (0 records)" % (data[:40],),
                            detail=case["kind"])
    finally:
        shutil.rmtree(tmp, ignore_errors=True)


def stdin_cells(tier):
    import datetime as _d

    g = _d.datetime(2020, 5, 5, 5, 5, 5, tzinfo=_d.timezone.utc)
    out = []
    for container in ("stream", "avro"):
        for codec in CODECS:
            if container == "stream":
                seq = [gen.M("plain", {"desc": ("t/s", (("string", "a"), ("varint[]", "b"))), "vals": ["x\udc80", [1, 2**70]],
                                       "src": None, "cls": None, "gen": g}),
                       gen.M("plain", {"desc": ("t/u", (("path", "p"),)), "vals": [gen.M("path", ("windows", "c:\\x", "from"))],
                                       "src": "s", "cls": None, "gen": g})]
            else:
                seq = [gen.M("plain", {"desc": ("t/avro", AVRO_FIELDS), "vals": ["a", 5, True, b"\x00"], "src": None,
                                       "cls": None, "gen": g}),
                       gen.M("plain", {"desc": ("t/avro", AVRO_FIELDS), "vals": [None, None, None, None], "src": None,
                                       "cls": None, "gen": g})]
            for naming in (("-", "stream://-", "stream://") if container == "stream" else ("-", "avro://-", "avro://")):
                out.append({"container": container, "codec": codec, "seq": seq, "stdin_name": naming})
    return out


def parts(tier):
    return [
        Part("matrix", check_matrix, strategy=matrix_case(), examples=(40, 3000)),
        Part("foreign-compressors", check_foreign, cases=foreign_cases, exhaustive=True),
        Part("stdin-cells", check_stdin, cases=stdin_cells, exhaustive=True),
        Part("stdin", check_stdin, strategy=matrix_case(), examples=(1, 25)),
        Part("interleaved", check_interleaved, strategy=interleave_case(), examples=(20, 1500)),
        Part("garbage", check_garbage, strategy=garbage_case(), examples=(100, 10000)),
    ]
