"""C06 - Descriptor names are validated; untrusted definitions cannot inject code."""
import ast
import io
import itertools
import json
import keyword
import os
import re
import shutil

from hypothesis import strategies as st

from vlib import gen, refcodec
from vlib.runner import Part, Violation, impl

LEVEL = "exploration"
RULE = (
    "(i) EXHAUSTIVE: every string of length <=3 (quick: <=2 plus a 1/16 sample of length 3) over a 40-character "
    "hostile alphabet as type name, as field name and as field type, through the constructor (length <=2 also through "
    "a crafted descriptor frame -> RecordStreamReader, a recorddescriptor JSON line -> JsonfileReader and an Avro "
    "schema doc -> AvroReader); (ii) generated: valid names mutated by one hostile insertion / prefix / suffix, "
    "Python keywords, template-namespace identifiers, very long names, code payloads with tripwires, through all four "
    "channels. Oracle: reference grammar (re.fullmatch, ASCII classes, pinned whitelist copy): outside the grammar => "
    "the channel raises and no record class exists; inside => accepted (unless the name is a Python keyword) and the "
    "record has __slots__ == declared names + reserved, can be instantiated, _version == 1 and _generated stamped. "
    "exec monitor: every source text handed to exec is captured and must match an AST allow-list; import monitor: "
    "importlib.import_module calls are restricted to the field-type modules; tripwires stay untouched. Non-trivial = "
    "definition outside the grammar, or inside it with a keyword / template-namespace identifier."
    " Also: definitions that follow a valid definition with the same identifier (binary / JSON lines), names given as bytes (undecodable bytes included; constructor and msgpack bin), and every field view of an accepted descriptor."
)
ASSUMPTIONS = [
    "the exec/import monitors shadow flow.record.base.exec / importlib from the check process (no repo hook)",
    "names longer than 3 characters are sampled, not enumerated",
]

ALPHABET = list("aAbZ09_/.-;()'\"$\\[] \n\r\t\x00\x0b\x0c\x1c\x1d\x1e\x1f\x85\u2028\u2029\xe9\uff41\u0660\xb2:,=")
assert len(ALPHABET) == 40, len(ALPHABET)

WHITELIST_PINNED = {
    "boolean", "command", "dynamic", "datetime", "filesize", "uint16", "uint32", "float", "string", "stringlist",
    "dictlist", "unix_file_mode", "varint", "wstring", "net.ipv4.Address", "net.ipv4.Subnet", "net.tcp.Port",
    "net.udp.Port", "uri", "digest", "bytes", "record", "net.ipaddress", "net.ipnetwork", "net.IPAddress",
    "net.IPNetwork", "path",
}
RESERVED = ("_source", "_classification", "_generated", "_version")
RE_TYPE = re.compile(r"[A-Za-z][A-Za-z0-9_]*(/[A-Za-z][A-Za-z0-9_]*)*")
RE_FIELD = re.compile(r"[A-Za-z][A-Za-z0-9_]*")
TRIP = "/tmp/verif-c06-tripwire"


def ref_valid_type_name(s):
    return isinstance(s, str) and RE_TYPE.fullmatch(s) is not None


def ref_valid_field_name(s):
    return isinstance(s, str) and RE_FIELD.fullmatch(s) is not None


def ref_valid_field_type(s):
    if not isinstance(s, str):
        return False
    if s.endswith("[]"):
        s = s[:-2]
    return s in WHITELIST_PINNED


def ref_valid(defn):
    name, fields = defn
    names = [n for _, n in fields]
    return (
        ref_valid_type_name(name)
        and all(ref_valid_field_name(n) for n in names)
        and all(ref_valid_field_type(t) for t, _ in fields)
    )


def must_accept(defn):
    """Inside the grammar and not colliding with Python's own syntax rules for a class statement."""
    name, fields = defn
    if not ref_valid(defn):
        return False
    if keyword.iskeyword(name.replace("/", "_")):
        return False
    if len(fields) > 200:
        return False
    return True


# ---------------------------------------------------------------------------------------------
# monitors

EXEC_LOG = []
IMPORT_LOG = []
_installed = False


def install_monitors():
    global _installed
    if _installed:
        return
    import builtins
    import importlib

    import flow.record.base as base

    real_exec = builtins.exec

    def spy_exec(code, *a, **k):
        EXEC_LOG.append(code)
        return real_exec(code, *a, **k)

    class ImportSpy:
        def __getattr__(self, n):
            return getattr(importlib, n)

        def import_module(self, name, *a, **k):
            IMPORT_LOG.append(name)
            return importlib.import_module(name, *a, **k)

    base.exec = spy_exec
    base.importlib = ImportSpy()
    _installed = True


ALLOWED_IMPORT = re.compile(r"flow\.record\.(fieldtypes(\.net(\.(ip|ipv4|tcp|udp))?)?|adapter\.[a-z0-9_]+)")
ALLOWED_NODES = (
    ast.Module, ast.ClassDef, ast.FunctionDef, ast.arguments, ast.arg, ast.Assign, ast.Attribute, ast.Name,
    ast.Constant, ast.Dict, ast.Tuple, ast.List, ast.Return, ast.Call, ast.keyword, ast.IfExp, ast.Compare, ast.Is,
    ast.IsNot, ast.For, ast.Expr, ast.ListComp, ast.comprehension, ast.BoolOp, ast.Or, ast.Load, ast.Store,
    ast.Starred, ast.Subscript,
)
TEMPLATE_NAMES = {"Record", "RECORD_VERSION", "_RECORD_VERSION", "_utcnow", "_zip_longest", "__self", "__cls",
                  "classmethod", "setattr", "dict", "args", "kwargs", "k", "v", "f", "values", "None", "_generated",
                  "_desc", "_field_types", "__slots__", "_unpack", "__init__", "_setattr", "_dict"}
TEMPLATE_ATTRS = {"type", "default", "_unpack", "_generated", "_version", "__slots__", "_field_types", "get",
                  "_desc"}


def check_exec_source(src, defn, accepted, where, extra_fields=(), extra_classes=()):
    if not isinstance(src, str):
        raise Violation("exec/non-text", "%s: exec received %r" % (where, type(src)))
    try:
        tree = ast.parse(src)
    except SyntaxError:
        if accepted:
            raise Violation("exec/unparsable-but-accepted", "%s: generated source does not parse yet the definition was "
                            "accepted: %r" % (where, src[:300]))
        return
    name, fields = defn
    fnames = {n for _, n in fields if isinstance(n, str)} | set(RESERVED) | set(extra_fields)
    ok_names = TEMPLATE_NAMES | fnames | {"_field_" + n for n in fnames} | {str(name).replace("/", "_")} | set(extra_classes)
    ok_attrs = TEMPLATE_ATTRS | fnames
    if len(tree.body) != 1 or not isinstance(tree.body[0], ast.ClassDef):
        raise Violation("exec/extra-statements", "%s: generated module has %d top-level statements: %r"
                        % (where, len(tree.body), src[:400]))
    for node in ast.walk(tree):
        if not isinstance(node, ALLOWED_NODES):
            raise Violation("exec/unexpected-node", "%s: %s in generated source: %r" % (where, type(node).__name__, src[:400]))
        if isinstance(node, ast.Name) and node.id not in ok_names:
            raise Violation("exec/unexpected-name", "%s: name %r in generated source: %r" % (where, node.id, src[:400]))
        if isinstance(node, ast.Attribute) and node.attr not in ok_attrs:
            raise Violation("exec/unexpected-attribute", "%s: attribute %r in generated source" % (where, node.attr))
        if isinstance(node, ast.Constant) and isinstance(node.value, str) and node.value not in fnames:
            raise Violation("exec/unexpected-string", "%s: string constant %r in generated source" % (where, node.value))
        if isinstance(node, ast.arg) and node.arg not in ok_names:
            raise Violation("exec/unexpected-arg", "%s: parameter %r in generated source" % (where, node.arg))


# ---------------------------------------------------------------------------------------------
# channels


def via_constructor(defn):
    from flow.record import RecordDescriptor

    name, fields = defn
    return RecordDescriptor(name, [tuple(f) for f in fields])


def via_stream(defn):
    from flow.record import RecordStreamReader

    name, fields = defn
    w = refcodec.Widths()
    data = refcodec.HEADER_FRAME + refcodec.frame(refcodec.pack(refcodec.descriptor_to_ext(name, fields, w), w))
    values = [None] * len(fields) + [None, None, None, 1]
    ident = [name, refcodec.descriptor_hash(name, fields)]
    data += refcodec.frame(refcodec.pack(refcodec.ext14(refcodec.T_RECORD, [ident, values], w), w))
    recs = list(RecordStreamReader(io.BytesIO(data)))
    if len(recs) != 1:
        raise RuntimeError("stream channel yielded %d records" % len(recs))
    return recs[0]._desc


def via_json(defn, tmp):
    from flow.record.adapter.jsonfile import JsonfileReader

    name, fields = defn
    p = os.path.join(tmp, "d.json")
    ident = [name, refcodec.descriptor_hash(name, fields)]
    rec = {"_type": "record", "_recorddescriptor": ident}
    for t, n in fields:
        if isinstance(n, str):
            rec.setdefault(n, "" if t == "bytes" else None)
    with open(p, "w", encoding="utf-8", errors="surrogatepass") as f:
        f.write(json.dumps({"_type": "recorddescriptor", "_data": [name, [list(x) for x in fields]]}) + "\n")
        f.write(json.dumps(rec) + "\n")
    rd = JsonfileReader(p)
    try:
        recs = list(rd)
    finally:
        rd.close()
    if len(recs) != 1:
        raise RuntimeError("json channel yielded %d records" % len(recs))
    return recs[0]._desc


def via_avro(defn, tmp):
    import fastavro

    from flow.record.adapter.avro import AvroReader

    name, fields = defn
    doc = json.dumps([name, [list(x) for x in fields]])
    schema = {"type": "record", "name": "carrier", "doc": doc, "fields": [{"name": "f", "type": ["string", "null"]}]}
    p = os.path.join(tmp, "d.avro")
    with open(p, "wb") as f:
        fastavro.writer(f, fastavro.parse_schema(schema), [])
    rd = AvroReader(p)
    try:
        return rd.desc
    finally:
        rd.close()


def via_null_fields(defn, how):
    """The deprecated definition-by-text form: the field list is None / nil / null and the name carries the text."""
    import warnings

    from flow.record import RecordDescriptor, RecordStreamReader

    name = defn[0]
    with warnings.catch_warnings():
        warnings.simplefilter("ignore")
        if how == "constructor-none":
            return RecordDescriptor(name, None)
        if how == "stream-nil-fields":
            w = refcodec.Widths()
            data = refcodec.HEADER_FRAME + refcodec.frame(refcodec.pack(refcodec.ext14(refcodec.T_DESC, [name, None], w), w))
            rd = RecordStreamReader(io.BytesIO(data))
            list(rd)
            ds = [d for k, d in rd.packer.descriptors.items() if isinstance(k, tuple)]
            if len(ds) != 1:
                raise RuntimeError("stream channel yielded %d descriptors" % len(ds))
            return ds[0]
        from flow.record import JsonRecordPacker

        p = JsonRecordPacker()
        return p.unpack(json.dumps({"_type": "recorddescriptor", "_data": [name, None]}))


def via_grouped(defn, how):
    """The name of a grouped record becomes the name of its flat record type: it is a type name like any other."""
    import datetime as _d

    from flow.record import GroupedRecord, RecordDescriptor, RecordStreamReader

    name, fields = defn
    g = _d.datetime(2020, 1, 1, tzinfo=_d.timezone.utc)
    member = RecordDescriptor("t/member", [tuple(f) for f in fields])
    recs = [member(_generated=g), RecordDescriptor("t/other", [("varint", "zz_n")])(1, _generated=g)]
    if how == "grouped-constructor":
        grp = GroupedRecord(name, recs)
    else:
        m = refcodec.record_model(GroupedRecord("ok/name", recs))
        data = refcodec.encode_stream([(m[0], name) + tuple(m[2:])])
        out = list(RecordStreamReader(io.BytesIO(data)))
        if len(out) != 1:
            raise RuntimeError("stream channel yielded %d records" % len(out))
        grp = out[0]
    if grp.name != name:
        raise RuntimeError("harness: grouped record is named %r" % (grp.name,))
    return grp


_TWIN = [None]


def via_after_twin(defn, channel, tmp):
    """The definition arrives in a stream (binary / JSON lines) that has ALREADY announced a valid definition with the
    same name and the same identifier (the 32-bit value is taken over the plain concatenation of field names and
    types, so different field lists can share it): being known under that identifier must not let the second
    definition in unvalidated. Returns the descriptor of the record that follows the second definition."""
    from flow.record import RecordStreamReader
    from flow.record.adapter.jsonfile import JsonfileReader

    name, fields = defn
    twin = _TWIN[0]
    if refcodec.descriptor_hash(name, fields) != refcodec.descriptor_hash(name, twin):
        raise RuntimeError("harness: twin %r does not share the identifier of %r" % (twin, fields))
    ident = [name, refcodec.descriptor_hash(name, fields)]
    if channel == "stream-after-twin":
        w = refcodec.Widths()
        data = refcodec.HEADER_FRAME
        data += refcodec.frame(refcodec.pack(refcodec.descriptor_to_ext(name, twin, w), w))
        data += refcodec.frame(refcodec.pack(refcodec.ext14(refcodec.T_RECORD, [ident, [None] * len(twin) + [None, None, None, 1]], w), w))
        data += refcodec.frame(refcodec.pack(refcodec.descriptor_to_ext(name, fields, w), w))
        data += refcodec.frame(refcodec.pack(refcodec.ext14(refcodec.T_RECORD, [ident, [None] * len(fields) + [None, None, None, 1]], w), w))
        recs = list(RecordStreamReader(io.BytesIO(data)))
    else:
        p = os.path.join(tmp, "d.json")
        with open(p, "w", encoding="utf-8", errors="surrogatepass") as f:
            for fl in (twin, fields):
                rec = {"_type": "record", "_recorddescriptor": ident}
                for t, n in fl:
                    rec.setdefault(n, None)
                f.write(json.dumps({"_type": "recorddescriptor", "_data": [name, [list(x) for x in fl]]}) + "\n")
                f.write(json.dumps(rec) + "\n")
        rd = JsonfileReader(p)
        try:
            recs = list(rd)
        finally:
            rd.close()
    if len(recs) != 2:
        raise RuntimeError("after-twin channel yielded %d records" % len(recs))
    return recs[1]._desc


def after_twin_cases(tier):
    pairs = [
        # (valid twin, definition outside the grammar with the same name + concatenation of field names and types)
        ([("string[]", "a"), ("string", "b")], [("string", "astring[]b")]),
        ([("string", "a"), ("string", "b")], [("g", "astringbstrin")]),
        ([("string", "x")], [("ring", "xst")]),
        ([("string", "x")], [("", "xstring")]),
        ([("string", "x")], [("xstring", "")]),
        ([("varint", "a"), ("string", "b")], [("tring", "avarintbs")]),
        ([("net.ipaddress", "ip"), ("string", "s")], [("ipaddress", "ipnet."), ("string", "s")]),
        ([("string", "a"), ("string", "bb")], [("string", "a"), ("ng", "bbstri")]),
        ([("string", "os"), ("varint", "n")], [("varint", "osstringn")]),
        ([("string", "a"), ("uint16", "b")], [("string", "a"), ("16", "buint")]),
        ([("string", "a"), ("uint16", "b")], [("string", "a"), ("uint16", "b"), ("", "")]),
        ([("string", "a"), ("string", "x__y")], [("string", "astringx__y")]),
        ([("bytes", "import"), ("string", "os")], [("string", "importbytesos")]),
        ([("string", "a"), ("varint", "b")], [("string", "a"), ("varint", "b"), ("", ""), ("", "")]),
        # two VALID definitions that share an identifier: the second is accepted, and it is the second one
        ([("string", "a"), ("varint", "b")], [("varint", "astringb")]),
        ([("wstring", "x")], [("string", "xw")]),
        ([("stringlist", "a"), ("string", "b")], [("string", "a"), ("string", "listb")]),
        ([("string", "a"), ("string", "listb")], [("stringlist", "a"), ("string", "b")]),
    ]
    pairs = [p for p in pairs if p[1]]
    cases = []
    for twin, hostile in pairs:
        for nm in ("t/seed", "demo"):
            for ch in ("stream-after-twin", "json-after-twin"):
                cases.append({"name": nm, "fields": hostile, "channel": ch, "role": "after-colliding-twin", "twin": twin})
    return cases


BYTES_RAW = [b"name", b"t/ok", b"string", b"varint[]", b"na\xffme", b"\xffname", b"name\xff", b"t/\xfeok", b"str\xffing",
             b"string\xff", b"\xffstring", b"\xc3(", b"a\x80b", b"na\xc3me", b"a\xc0\xafb", b"a\xed\xa0\x80b", b"\xef\xbb\xbfname",
             b"\xef\xbb\xbfstring", b"na\x00me", "n\u00e4me".encode(), "str\u0131ng".encode(), b"uint16\xff", b"net.ipaddress\x80",
             b"t\xff/ok", b"\xfft/ok", b"t/ok\xfe", b"varint\xff[]", b"varint[]\xff", b"_\xffx", b"\xff_x", b"\xff", b"\xfe\xff"]


def bytes_name_cases(tier):
    return [{"raw": raw, "role": role, "channel": ch} for raw in BYTES_RAW for role in ("type-name", "field-name", "field-type")
            for ch in ("constructor", "stream")]


def check_bytes_definition(case, ctx):
    """Names and type names may arrive as BYTES (the constructor converts them; old streams carry msgpack bin values).
    What is judged is the text those bytes stand for (UTF-8, undecodable bytes kept as they are): bytes that are not a
    valid name must not become one on the way in - by dropping, replacing or guessing."""
    from flow.record import RecordDescriptor, RecordStreamReader

    raw, role, channel = case["raw"], case["role"], case["channel"]
    dec = raw.decode("utf-8", "surrogateescape")
    name, ftype, fname = "t/ok", "string", "ok"
    rname, rtype, rfname = name, ftype, fname
    if role == "type-name":
        name, rname = dec, raw
    elif role == "field-name":
        fname, rfname = dec, raw
    else:
        ftype, rtype = dec, raw
    defn = (name, ((ftype, fname),))
    valid = ref_valid(defn)
    ctx.nontriv()
    ctx.cls("bytes:" + role, "bytes-channel:" + channel, "bytes-grammar:" + ("inside" if valid else "outside"))
    import flow.record.base as _base

    _base._generate_record_class.cache_clear()
    accepted = []
    if channel == "constructor":
        res = impl(lambda: RecordDescriptor(rname, [(rtype, rfname)]))
        if res.ok:
            accepted.append(res.value)
    else:
        # the record frame has to name the type the way the reader understood it: try the faithful reading and the
        # readings a lossy conversion would give (undecodable bytes dropped / replaced)
        seen = set()
        for how in ("surrogateescape", "ignore", "replace"):
            alt = raw.decode("utf-8", how)
            a_name, a_type, a_fname = (alt if role == "type-name" else "t/ok"), (alt if role == "field-type" else "string"), \
                (alt if role == "field-name" else "ok")
            if (a_name, a_type, a_fname) in seen:
                continue
            seen.add((a_name, a_type, a_fname))
            w = refcodec.Widths()
            data = refcodec.HEADER_FRAME + refcodec.frame(refcodec.pack(refcodec.ext14(refcodec.T_DESC, [rname, [[rtype, rfname]]], w), w))
            try:
                ident = [a_name, refcodec.descriptor_hash(a_name, [(a_type, a_fname)])]
                data += refcodec.frame(refcodec.pack(refcodec.ext14(refcodec.T_RECORD, [ident, [None, None, None, None, 1]], w), w))
            except UnicodeEncodeError:
                continue
            res = impl(lambda: list(RecordStreamReader(io.BytesIO(data))))
            if res.ok and len(res.value) == 1:
                accepted.append(res.value[0]._desc)
    where = "%s %s %r" % (channel, role, raw)
    for desc in accepted:
        got = (desc.name, tuple(tuple(f) for f in desc.get_field_tuples()))
        if not valid:
            raise Violation("bytes/%s/invalid-accepted" % channel, "%s: these bytes are not a valid %s, but a record type %r came "
                            "out of them" % (where, role, got), detail=role)
        if got != defn:
            raise Violation("bytes/%s/accepted-as-something-else" % channel, "%s: accepted as %r, the bytes say %r"
                            % (where, got, defn), detail=role)
    if valid and not accepted:
        ctx.cls("bytes:valid-but-refused")


def deliver(channel, defn, tmp):
    if channel in ("stream-after-twin", "json-after-twin"):
        return via_after_twin(defn, channel, tmp)
    if channel in ("grouped-constructor", "grouped-stream"):
        return via_grouped(defn, channel)
    if channel in ("constructor-none", "stream-nil-fields", "json-null-fields"):
        return via_null_fields(defn, channel)
    if channel == "constructor":
        return via_constructor(defn)
    if channel == "stream":
        return via_stream(defn)
    if channel == "json":
        return via_json(defn, tmp)
    return via_avro(defn, tmp)


def check_definition(case, ctx):
    import datetime as _d

    install_monitors()
    defn = (case["name"], tuple(tuple(f) for f in case["fields"]))
    channel = case["channel"]
    valid = ref_valid(defn)
    if case.get("role") == "null-field-list" and "\n" in defn[0]:
        # multi-line text is a whole definition (name line + field lines): the name to judge is its first line
        first = [ln.strip() for ln in defn[0].split("\n") if ln.strip()][0]
        valid = ref_valid_type_name(first) and False  # payload texts are never valid definitions here
    if channel == "avro" and not defn[1]:
        return  # the avro 'doc' detection needs at least one field (']]]' suffix)
    ctx.cls("channel:" + channel, "grammar:" + ("inside" if valid else "outside"), "role:" + case.get("role", "gen"))
    awkward = valid and (
        any(keyword.iskeyword(n) for _, n in defn[1]) or any(n in TEMPLATE_NAMES for _, n in defn[1])
        or defn[0].replace("/", "_") in TEMPLATE_NAMES or keyword.iskeyword(defn[0].replace("/", "_"))
    )
    if not valid or awkward:
        ctx.nontriv()
    if awkward:
        ctx.cls("inside:keyword-or-template-name")
    del EXEC_LOG[:]
    del IMPORT_LOG[:]
    import flow.record.base as _base

    _base._generate_record_class.cache_clear()  # every case reaches exec (keeps the monitor deterministic)
    tmp = ctx.fresh_dir() if channel in ("json", "avro", "json-after-twin") else None
    _TWIN[0] = [tuple(f) for f in case["twin"]] if case.get("twin") else None
    try:
        res = impl(deliver, channel, defn, tmp)
    finally:
        if tmp:
            shutil.rmtree(tmp, ignore_errors=True)
    where = "%s %r" % (channel, defn)
    sigrole = case.get("role", "gen")
    if isinstance(res.exc if not res.ok else None, RuntimeError) and "channel yielded" in str(res.exc):
        raise RuntimeError("harness: " + str(res.exc))
    # monitors first: nothing from the definition may be executed or imported, accepted or not
    for src in EXEC_LOG:
        if channel.endswith("-after-twin"):
            check_exec_source(src, defn, res.ok, where, extra_fields=tuple(n for _, n in _TWIN[0]))
        elif channel.startswith("grouped-"):
            # the harness' own member types (t/member, t/other with field zz_n) are generated inside the delivery
            check_exec_source(src, defn, res.ok, where, extra_fields=("zz_n",), extra_classes=("t_member", "t_other"))
        else:
            check_exec_source(src, defn, res.ok, where)
    for mod in IMPORT_LOG:
        if not ALLOWED_IMPORT.fullmatch(mod):
            raise Violation("import/outside-whitelist", "%s: import_module(%r)" % (where, mod))
    if os.path.exists(TRIP):
        os.unlink(TRIP)
        raise Violation("tripwire/file-created", "%s created the tripwire file" % where)
    import builtins

    if getattr(builtins, "VERIF_C06_PWNED", False):
        del builtins.VERIF_C06_PWNED
        raise Violation("tripwire/builtins-flag", "%s set the builtins flag" % where)
    if not valid:
        if res.ok:
            raise Violation("%s/invalid-accepted" % channel, "%s: definition outside the grammar was accepted" % where,
                            detail=sigrole)
        return
    if not res.ok:
        if must_accept(defn):
            raise Violation("%s/valid-rejected" % channel, "%s: valid definition rejected with %r" % (where, res),
                            detail=res.type)
        ctx.cls("inside:rejected-python-keyword")
        return
    if channel.startswith("grouped-"):
        grp = res.value
        flat = impl(lambda: (grp._desc.name, [n for _, n in grp._desc.get_field_tuples()]))
        if not flat.ok or flat.value[0] != defn[0]:
            raise Violation("accepted/grouped-flat-type", "%s: flat record type of the accepted group: %r" % (where, flat))
        return
    desc = res.value
    # shape of the accepted definition
    declared = tuple(n for _, n in defn[1])
    slots = tuple(desc.recordType.__slots__)
    if slots != declared + RESERVED:
        raise Violation("accepted/slots", "%s: __slots__ %r, expected %r" % (where, slots, declared + RESERVED))
    if tuple(tuple(f) for f in desc.get_field_tuples()) != defn[1] or desc.name != defn[0]:
        raise Violation("accepted/descriptor", "%s: descriptor is (%r, %r)" % (where, desc.name, desc.get_field_tuples()))
    # every view the descriptor offers of its fields says the same: the declared fields, then the reserved ones
    views = impl(lambda: {
        "fields": tuple((f.typename, f.name) for f in desc.fields.values()),
        "get_all_fields": tuple((f.typename, f.name) for f in desc.get_all_fields().values()),
        "getfields": tuple((f.typename, f.name) for t in dict.fromkeys(t for t, _ in defn[1]) for f in desc.getfields(t)),
    })
    if not views.ok:
        raise Violation("accepted/field-views-raised", "%s: %r" % (where, views), detail=views.type)
    exp_all = defn[1] + (("string", "_source"), ("string", "_classification"), ("datetime", "_generated"), ("varint", "_version"))
    exp_by_type = tuple((t, n) for tt in dict.fromkeys(t for t, _ in defn[1]) for t, n in defn[1] if t == tt)
    for vname, exp in (("fields", defn[1]), ("get_all_fields", exp_all), ("getfields", exp_by_type)):
        if views.value[vname] != exp:
            raise Violation("accepted/field-view", "%s: %s reports %r, declared %r" % (where, vname, views.value[vname], exp),
                            detail=vname)
    inst = impl(lambda: desc.recordType())
    if not inst.ok:
        raise Violation("accepted/cannot-instantiate", "%s: record cannot be instantiated: %r" % (where, inst),
                        detail=inst.type)
    r = inst.value
    if r._version != 1 or type(r._version).__name__ != "varint":
        raise Violation("accepted/version-stamp", "%s: _version is %r" % (where, r._version))
    if not isinstance(r._generated, _d.datetime) or r._generated.tzinfo is None:
        raise Violation("accepted/generated-stamp", "%s: _generated is %r" % (where, r._generated))
    # give every field a value by keyword expansion / positionally and read it back
    vals = {}
    for t, n in defn[1]:
        if t in ("string", "wstring"):
            vals[n] = "v-" + n[:20]
        elif t == "varint":
            vals[n] = len(n)
    if vals:
        pos = [vals.get(n) for n in declared]
        r2 = impl(lambda: desc.recordType(*pos))
        if not r2.ok:
            raise Violation("accepted/cannot-instantiate", "%s: positional construction raised %r" % (where, r2),
                            detail=r2.type)
        for n, v in vals.items():
            if getattr(r2.value, n) != v:
                raise Violation("accepted/field-value", "%s: field %s holds %r, expected %r" % (where, n, getattr(r2.value, n), v))
        if r2.value._version != 1:
            raise Violation("accepted/version-stamp", "%s: _version is %r after positional construction"
                            % (where, r2.value._version))


# ---------------------------------------------------------------------------------------------
# case sources


def short_strings(maxlen):
    for ln in range(0, maxlen + 1):
        for t in itertools.product(ALPHABET, repeat=ln):
            yield "".join(t)


def _role_case(role, s, channel):
    if role == "type-name":
        return {"name": s, "fields": [("string", "ok")], "channel": channel, "role": role}
    if role == "field-name":
        return {"name": "t/ok", "fields": [("string", s)], "channel": channel, "role": role}
    return {"name": "t/ok", "fields": [(s, "ok")], "channel": channel, "role": role}


def derived_type_names():
    """Strings derived from every whitelisted type name: dotted prefixes (namespace nodes), suffixes, list forms,
    case variants, one-character edits - the near misses a whitelist check must still refuse."""
    out = set()
    for w in sorted(WHITELIST_PINNED):
        parts_ = w.split(".")
        cands = {w, w + "[]", w + "[][]", w + "[", w + "]", "[]" + w, w + ".", "." + w, w + ".x", w + "x", w[:-1], w[1:],
                 w.upper(), w.lower(), w.capitalize(), w.swapcase(), w + " ", " " + w, w + "\n", w + "[] ", w + " []",
                 w.replace(".", ".."), w.replace(".", "/"), w.replace(".", "_"), "fieldtypes." + w,
                 "flow.record.fieldtypes." + w}
        for i in range(1, len(parts_)):
            pre = ".".join(parts_[:i])
            cands |= {pre, pre + "[]", pre + ".", pre + ".[]"}
            cands.add(".".join(parts_[i:]))
        for c in cands:
            out.add(c)
            out.add(c + "[]")
    out |= {"net.ip.ipaddress", "net.ip.ipaddress[]", "net.ipv4.address", "net.ipv4.subnet", "net.tcp.port", "net.udp.port",
            "net.ipv4.SubnetList", "net.hostname", "net.email", "credential.username", "typedlist", "FieldType", "record[]",
            "posix_path", "windows_path", "posix_command", "windows_command", "hostname", "email", "net.ipv4.addr_long"}
    return sorted(out)


def type_name_cases(tier):
    cases = []
    for tname in derived_type_names():
        for ch in ("constructor", "stream", "json", "avro"):
            cases.append({"name": "t/ok", "fields": [(tname, "ok")], "channel": ch, "role": "derived-type-name"})
            cases.append({"name": "t/ok", "fields": [("string", "first"), (tname, "ok")], "channel": ch,
                          "role": "derived-type-name"})
    return cases


def template_name_cases(tier):
    """Every identifier the class template itself uses, as type name and as field name, with and without a Python
    keyword among the fields (the keyword switches the generated code to its *args/**kwargs variant)."""
    ids = ["Record", "RECORD_VERSION", "_RECORD_VERSION", "setattr", "dict", "classmethod", "args", "kwargs", "k", "v", "f",
           "values", "type", "default", "get", "zip_longest", "utcnow", "object", "super", "len", "str", "int", "tuple",
           "list", "isinstance", "None", "self", "cls"]
    cases = []
    for i in ids:
        for kw in (False, True):
            extra = [("string", "from")] if kw else []
            for ch in ("constructor", "stream"):
                cases.append({"name": i, "fields": [("string", "a")] + extra, "channel": ch, "role": "template-name"})
                cases.append({"name": "x/" + i, "fields": [("varint", "a")] + extra, "channel": ch, "role": "template-name"})
                if i != "a":
                    cases.append({"name": "t/ok", "fields": [("string", i), ("varint", "a")] + extra, "channel": ch,
                                  "role": "template-field"})
    return cases


def reserved_position_cases(tier):
    """Reserved / underscore names as declared field names at every position of a field list, alone and together
    with Python-keyword field names (which switch the class template) - all must be rejected."""
    cases = []
    bad = list(RESERVED) + ["_x", "__class__", "_", "__slots__", "_desc", "_field_types"]
    fillers = [[], [("string", "a")], [("string", "from")], [("string", "class"), ("varint", "a")], [("varint", "a"), ("string", "import")]]
    for b in bad:
        for fl in fillers:
            for pos in range(len(fl) + 1):
                fields = list(fl)
                fields.insert(pos, ("string", b))
                for ch in ("constructor", "stream", "json", "avro"):
                    cases.append({"name": "t/ok", "fields": fields, "channel": ch, "role": "reserved-field-name"})
    return cases


def null_field_list_cases(tier):
    """Hostile and valid type names delivered without a field list (the validation must not depend on the list)."""
    names = [s_ for s_ in short_strings(2) if s_ == s_.strip() and "\n" not in s_ and "\r" not in s_ and s_]
    names += ["t\u00e9st", "\u0430dmin/user", "_hidden", "__class__", "test/", "/test", "a//b", "a b", "a;b", "a(b)", "a.b",
              "a(*[__import__('builtins').__dict__.__setitem__('VERIF_C06_PWNED', True) or Record]):#",
              "x(Record): pass\nimport builtins; builtins.VERIF_C06_PWNED = True\nclass y", "ok/name", "Record", "valid"]
    cases = []
    for n in names:
        for ch in ("constructor-none", "stream-nil-fields", "json-null-fields"):
            cases.append({"name": n, "fields": [], "channel": ch, "role": "null-field-list"})
    return cases


def hostile_with_keyword_cases(tier):
    """A near-valid field / type name (a valid name with one hostile character before, after or inside it, or a
    payload) next to Python-keyword field names: the keyword switches the class template to its setattr variant, in
    which names are interpolated at other places than in the plain template - and next to a field that carries the
    name the hostile one would collapse to if the hostile character were dropped."""
    cases = []
    hostile = []
    for c in ALPHABET[4:]:
        if c == "_" or c == "/":
            continue
        hostile += ["a" + c, c + "a", "a" + c + "b"]
    hostile += [p_ for p_ in PAYLOADS[:22]]
    fillers = [[("string", "class")], [("string", "from"), ("varint", "a")], [("varint", "a"), ("string", "import")],
               [("varint", "a"), ("varint", "b"), ("string", "lambda")]]
    for h in hostile:
        for fl in fillers:
            for pos in range(len(fl) + 1):
                fields = list(fl)
                fields.insert(pos, ("string", h))
                for ch in ("constructor", "stream"):
                    cases.append({"name": "t/ok", "fields": fields, "channel": ch, "role": "hostile-with-keyword"})
            for ch in ("constructor", "stream", "json"):
                cases.append({"name": h, "fields": list(fl), "channel": ch, "role": "hostile-name-with-keyword"})
    return cases


def grouped_name_cases(tier):
    """Type names (valid, hostile, payloads) given as the name of a grouped record, through the constructor and
    through a crafted grouped-record frame."""
    names = [s_ for s_ in short_strings(2)]
    names += PAYLOADS[:12] + ["t\u00e9st", "\u0430dmin/user", "_hidden", "test/", "/test", "a//b", "a b", "ok/name", "Record", "valid",
                              "a" * 10**5, "a/1b", "a/_b", "demo/__class__", "x\n<t/forged y=1>", "class", "from/import"]
    cases = []
    for n in names:
        for ch in ("grouped-constructor", "grouped-stream"):
            cases.append({"name": n, "fields": [("string", "ok")], "channel": ch, "role": "grouped-name"})
    return cases


def late_defect_cases(tier):
    """Long names whose first hundreds of characters are fine and whose defect sits far behind the start."""
    cases = []
    tails = ["\n", " ", "\u00e9", "-", "/", "//x", "/1", ";import os", "\nimport builtins; builtins.VERIF_C06_PWNED = True\nclass x(Record", ""]
    for L in (200, 254, 255, 256, 257, 300, 1024, 4096, 70000):
        for tail in tails:
            long_ = "a" * L + tail
            for ch in ("constructor", "stream", "json", "avro"):
                cases.append({"name": long_, "fields": [("string", "ok")], "channel": ch, "role": "late-defect-type-name"})
                if "/" not in tail:
                    cases.append({"name": "t/ok", "fields": [("string", long_)], "channel": ch, "role": "late-defect-field-name"})
                    cases.append({"name": "t/ok", "fields": [("string", long_), ("string", "class")], "channel": ch,
                                  "role": "late-defect-field-name"})
            cases.append({"name": "t/ok", "fields": [("string" + "x" * L + tail, "ok")], "channel": "constructor",
                          "role": "late-defect-field-type"})
    return cases


def empty_field_list_cases(tier):
    """Definitions with an EMPTY field list (marker / heartbeat types): the name is judged exactly as with fields."""
    names = [s_ for s_ in short_strings(2)]
    names += [" t/x", "t/x ", "t/x\n", "\tt/x", "\u00a0t/x", "t/x\nstring payload", "t/x\n    string payload\n", "t/x\n\n",
              "\nt/x", "t/x\r\n", "ok/name", "valid", "a/b/c", "t/x\x0b", "t/x\x0c", "t/x\u2028"] + PAYLOADS[:8]
    cases = []
    for n in names:
        for ch in ("constructor", "stream", "json"):
            cases.append({"name": n, "fields": [], "channel": ch, "role": "empty-field-list"})
    return cases


def duplicate_name_cases(tier):
    """A field name declared twice where ONE of the declarations carries a type that is not on the whitelist: whatever a
    repeated name means, every declared type has to be on the whitelist."""
    bad = ["os.system", "builtins.eval", "net", "String", "string[][]", "fieldtypes.string", "flow.record.fieldtypes.string",
           "record[]x", "", "string ", "__import__('os').system('touch %s')" % TRIP]
    cases = []
    for b in bad:
        for fields in ([(b, "a"), ("string", "a")], [("string", "a"), (b, "a")], [(b, "a"), ("string", "a"), ("varint", "a")],
                       [("varint", "x"), (b, "a"), ("string", "a")], [(b, "a"), ("string", "a"), ("string", "class")],
                       [(b, "a"), (b, "a"), ("string", "a")]):
            for ch in ("constructor", "stream", "json", "avro"):
                cases.append({"name": "t/ok", "fields": fields, "channel": ch, "role": "duplicate-name-hostile-type"})
    return cases


def exhaustive_cases(tier):
    cases = []
    for role in ("type-name", "field-name", "field-type"):
        for s in short_strings(2):
            for ch in ("constructor", "stream", "json", "avro"):
                if s == "" and role == "type-name" and ch != "constructor":
                    pass
                cases.append(_role_case(role, s, ch))
        k = 0
        for t in itertools.product(ALPHABET, repeat=3):
            k += 1
            if tier != "thorough" and k % 16 != 0:
                continue
            cases.append(_role_case(role, "".join(t), "constructor"))
    return cases


PAYLOADS = [
    "x=__import__('os').system('touch %s')" % TRIP,
    "a\n    import os; os.system('touch %s')\n" % TRIP,
    "a):\n  pass\nimport builtins; builtins.VERIF_C06_PWNED=True\nclass b(Record",
    "a=None):\n\t\tpass\n\timport builtins\n\tbuiltins.VERIF_C06_PWNED = True\n\tdef x(self",
    "__import__('builtins').VERIF_C06_PWNED",
    "a;import builtins;builtins.VERIF_C06_PWNED=1",
    "a' + __import__('os').system('touch %s') + '" % TRIP,
    "a, *b", "a=1", "a: int", "a\\", "a#", "(a)", "a b", "a\tb", "a\x0cb", "a b", "a\n", "\na", "a\r", "a\r\n",
    "os.path", "string()", "net.ipaddress.__class__", "__class__", "fieldtypes.string", "..string", "string.",
    "net..ipaddress", "net.ipaddress.", ".string", "builtins.eval", "os.system", "base.Record", "string[][]", "[]",
    "string[ ]", "String", "STRING", "net.Ipaddress", "typedlist", "FieldType", "datetime.datetime", "path.from_posix",
    "_dt", "varint_type", "flow.record.fieldtypes.string", "net.hostname", "net.email", "credential.username",
    "net.ip.ipaddress", "net.ipv4.address", "net.ipv4.subnet", "net.tcp.port", "net.ipv4.SubnetList",
]
TEMPLATE_IDS = ["setattr", "dict", "classmethod", "Record", "RECORD_VERSION", "args", "kwargs", "k", "v", "f", "values", "classmethod", "setattr", "dict",
                "type", "default", "get", "self", "cls", "None", "True", "class", "from", "import", "lambda", "def",
                "return", "RECORD/VERSION", "Record/x", "x/Record", "zip_longest", "utcnow"]


@st.composite
def generated_case(draw):
    channel = draw(st.sampled_from(["constructor", "constructor", "stream", "json", "avro"]))
    base_name = draw(gen.type_name())
    nf = draw(st.integers(1, 3))
    fnames = draw(st.lists(gen.field_name(), min_size=nf, max_size=nf, unique=True))
    ftypes = [draw(st.sampled_from(sorted(WHITELIST_PINNED) + ["string[]", "varint[]"])) for _ in fnames]
    kind = draw(st.sampled_from(["valid", "mutate-name", "mutate-field", "mutate-type", "payload-name", "payload-field",
                                 "payload-type", "template-id-field", "template-id-name", "long"]))
    name, fields = base_name, list(zip(ftypes, fnames))
    hostile = draw(st.sampled_from(ALPHABET[4:]))

    def mutate(s):
        how = draw(st.sampled_from(["prefix", "suffix", "insert"]))
        if how == "prefix":
            return hostile + s
        if how == "suffix":
            return s + hostile
        i = draw(st.integers(0, len(s)))
        return s[:i] + hostile + s[i:]

    i = draw(st.integers(0, nf - 1))
    if kind == "mutate-name":
        name = mutate(name)
    elif kind == "mutate-field":
        fields[i] = (fields[i][0], mutate(fields[i][1]))
    elif kind == "mutate-type":
        fields[i] = (mutate(fields[i][0]), fields[i][1])
    elif kind == "payload-name":
        name = draw(st.sampled_from(PAYLOADS))
    elif kind == "payload-field":
        fields[i] = (fields[i][0], draw(st.sampled_from(PAYLOADS)))
    elif kind == "payload-type":
        fields[i] = (draw(st.sampled_from(PAYLOADS)), fields[i][1])
    elif kind == "template-id-field":
        tid = draw(st.sampled_from(TEMPLATE_IDS))
        if tid not in [f[1] for f in fields]:
            fields[i] = (draw(st.sampled_from(["string", "varint"])), tid)
    elif kind == "template-id-name":
        name = draw(st.sampled_from(TEMPLATE_IDS))
    elif kind == "long":
        name = "a" * 10**5 if draw(st.booleans()) else name
        fields[i] = (fields[i][0], "b" * draw(st.sampled_from([300, 10**5])))
    return {"name": name, "fields": fields, "channel": channel, "role": kind}


def parts(tier):
    return [
        Part("short-strings", check_definition, cases=exhaustive_cases, exhaustive=(tier == "thorough")),
        Part("derived-type-names", check_definition, cases=type_name_cases, exhaustive=True),
        Part("template-identifiers", check_definition, cases=template_name_cases, exhaustive=True),
        Part("reserved-field-positions", check_definition, cases=reserved_position_cases, exhaustive=True),
        Part("null-field-list", check_definition, cases=null_field_list_cases, exhaustive=True),
        Part("late-defects-in-long-names", check_definition, cases=late_defect_cases, exhaustive=True),
        Part("empty-field-list", check_definition, cases=empty_field_list_cases, exhaustive=True),
        Part("duplicate-names-hostile-type", check_definition, cases=duplicate_name_cases, exhaustive=True),
        Part("grouped-record-names", check_definition, cases=grouped_name_cases, exhaustive=True),
        Part("hostile-with-keyword-fields", check_definition, cases=hostile_with_keyword_cases, exhaustive=True),
        Part("after-colliding-twin", check_definition, cases=after_twin_cases, exhaustive=True),
        Part("bytes-names", check_bytes_definition, cases=bytes_name_cases, exhaustive=True),
        Part("generated", check_definition, strategy=generated_case(), examples=(250, 20000)),
    ]
