"""C19 - Avro export preserves supported values and never corrupts silently."""
import datetime as _d
import os
import re
import shutil
import struct

from hypothesis import strategies as st

from vlib import gen
from vlib.runner import Part, Violation, impl

LEVEL = "exploration"
RULE = (
    "Generated descriptors over the Avro-mapped types (boolean datetime filesize uint16 uint32 float string wstring "
    "unix_file_mode varint uri bytes; digest in a 'raises or round-trips' class) x values incl. None, int32/int64 "
    "edges, uint32 >= 2^31, pre-1970 / year-2 / year-9998 timestamps, NaN/inf, float32 overflow, empty bytes, text "
    "with lone surrogates; unmappable field types; a second descriptor; and SEQUENCES good..., refused, good... . "
    "Oracle: fastavro.reader opens the file and AvroReader returns records with the same type name, field list and "
    "values (float via float32 rounding, timestamps as UTC instants to the microsecond); every record the mapping "
    "cannot represent raises at write(); after a refusal, closing the writer leaves a file from which exactly the "
    "accepted records are read back. Non-trivial = sequence with >=1 accepted record with a non-None field; "
    "distinct by case digest."
)
ASSUMPTIONS = [
    "'a standard Avro reader' = fastavro.reader",
    "timestamps whose UTC instant is outside years 2..9998 are outside the domain",
]

UTC = _d.timezone.utc
MAPPED = ["boolean", "datetime", "filesize", "uint16", "uint32", "float", "string", "wstring", "unix_file_mode", "varint",
          "uri", "bytes"]
UNMAPPED = ["path", "stringlist", "net.ipaddress", "command", "dictlist", "string[]", "varint[]", "record", "dynamic",
            "net.ipnetwork"]
INT64 = (-(2**63), 2**63 - 1)


def value_of(t):
    """-> strategy of (value, representable?)"""
    if t == "boolean":
        return st.one_of(st.none(), st.booleans()).map(lambda v: (v, True))
    if t == "datetime":
        ok = gen.aware_datetimes().filter(lambda d: 2 <= d.astimezone(UTC).year <= 9998)
        return st.one_of(st.none(), ok).map(lambda v: (v, True))
    if t in ("varint", "filesize", "unix_file_mode"):
        edges = [0, 1, -1, 2**31 - 1, 2**31, -(2**31), 2**63 - 1, -(2**63), 2**63, -(2**63) - 1, 2**64, 2**100]
        base = st.one_of(st.sampled_from(edges), st.integers(-(2**70), 2**70), st.integers(-100, 100))
        if t != "varint":
            base = base.map(abs)
        return st.one_of(st.none().map(lambda v: (v, True)), base.map(lambda v: (v, INT64[0] <= v <= INT64[1])))
    if t == "uint16":
        return st.one_of(st.none(), st.integers(0, 65535)).map(lambda v: (v, True))
    if t == "uint32":
        base = st.one_of(st.sampled_from([0, 2**31 - 1, 2**31, 2**32 - 1]), st.integers(0, 2**32 - 1))
        return st.one_of(st.none().map(lambda v: (v, True)), base.map(lambda v: (v, v < 2**31)))
    if t == "float":
        def rep(f):
            return (f, True)  # every double has an IEEE single-precision conversion (possibly +-inf)

        return st.one_of(st.none().map(lambda v: (v, True)), gen.floats().map(rep))
    if t in ("string", "wstring", "uri"):
        ok = st.text(st.characters(exclude_categories=["Cs"]), max_size=12)
        if t == "uri":
            ok = st.sampled_from(["http://a/b?c", "x", "", "é"])
        bad = st.sampled_from(["\udc80", "a\udcffb"])
        return st.one_of(st.none().map(lambda v: (v, True)), ok.map(lambda v: (v, True)), ok.map(lambda v: (v, True)),
                         bad.map(lambda v: (v, False)))
    if t == "bytes":
        return st.one_of(st.none(), st.binary(max_size=12)).map(lambda v: (v, True))
    raise KeyError(t)


@st.composite
def case_strategy(draw):
    nf = draw(st.sampled_from([0, 1, 1, 2, 2, 3, 4]))  # (a type without fields - marker / heartbeat records - is a type too)
    names = draw(st.lists(gen.ident(5), min_size=nf, max_size=nf, unique=True))
    types = [draw(st.sampled_from(MAPPED)) for _ in names]
    desc = (draw(gen.type_name()), tuple(zip(types, names)))
    n = draw(st.integers(1, 6))
    recs = []
    for _ in range(n):
        k = draw(st.integers(0, 9))
        if k == 0:
            recs.append((draw(st.sampled_from(["other-descriptor", "other-descriptor:same-name", "other-descriptor:colliding"])), None))
            continue
        vals = [draw(value_of(t)) for t in types]
        if k >= 3:
            # mostly representable records, so that refusals sit between accepted ones
            vals = [(v, ok) if ok else (None, True) for v, ok in vals]
        recs.append(("rec", vals))
    return {"desc": desc, "recs": recs, "flush_every": draw(st.sampled_from([0, 0, 1, 2])),
            # an idle flush (timer, empty first source) before the first record
            "flush_first": draw(st.sampled_from([0, 0, 0, 1, 2]))}


def f32(x):
    import ctypes

    return ctypes.c_float(x).value  # IEEE round-to-nearest conversion, overflow gives +-inf


def expect_equal(t, a, b):
    if a is None or b is None:
        return a is None and b is None
    if t == "float":
        fa = float(a)
        if fa != fa:
            return b != b
        return float(b) == f32(fa) and struct.pack(">d", float(b)) == struct.pack(">d", f32(fa))
    if t == "datetime":
        ia = a.astimezone(UTC)
        return (b.utcoffset() == _d.timedelta(0)
                and (b.year, b.month, b.day, b.hour, b.minute, b.second, b.microsecond)
                == (ia.year, ia.month, ia.day, ia.hour, ia.minute, ia.second, ia.microsecond))
    if t == "boolean":
        return bool(a) == bool(b) and not isinstance(b, str)
    if t == "bytes":
        return bytes(a) == bytes(b)
    if t in ("string", "wstring", "uri"):
        return str(a) == str(b)
    return int(a) == int(b)


def check(case, ctx):
    import fastavro

    from flow.record import RecordDescriptor, RecordReader, RecordWriter

    name, fields = case["desc"]
    desc = RecordDescriptor(name, [tuple(f) for f in fields])
    other = RecordDescriptor(name + "/other", [("string", "zz")])
    gen_ts = _d.datetime(2020, 3, 3, 3, 3, 3, 3, tzinfo=UTC)
    tmp = ctx.fresh_dir()
    try:
        p = os.path.join(tmp, "o.avro")
        w = RecordWriter(p)
        accepted = []
        refused_mid = False
        saw_refusal = False
        k = 0
        try:
            for _ in range(case.get("flush_first", 0)):
                fres = impl(w.flush)
                if not fres.ok:
                    raise Violation("avro/flush-before-first-record-raised", "%r" % (fres,))
                ctx.cls("flush-before-first-record")
            for kind, vals in case["recs"]:
                if kind.startswith("other-descriptor"):
                    if not accepted and not saw_refusal:
                        continue  # the first record fixes the file's descriptor: keep it the generated one
                    second = other
                    if kind.endswith(":same-name"):
                        # the next generation of the same type: one more field
                        second = RecordDescriptor(name, [tuple(f) for f in fields] + [("string", "zz_added")])
                    elif kind.endswith(":colliding"):
                        # same name and same identifier (the 32-bit hash runs over the concatenated field names and
                        # types): all fields folded into one field whose name spells the others
                        if len(fields) >= 2 and all(re.fullmatch(r"[A-Za-z0-9_]+", t) for t, _ in fields[:-1]):
                            folded = "".join(n + t for t, n in fields[:-1]) + fields[-1][1]
                            second = RecordDescriptor(name, [(fields[-1][0], folded)])
                            if second.identifier != desc.identifier:
                                raise RuntimeError("harness: folded descriptor does not collide")
                            ctx.cls("second-descriptor:identifier-collision")
                    res = impl(w.write, second(_generated=gen_ts) if second is not other else other("x", _generated=gen_ts))
                    if res.ok:
                        raise Violation("avro/second-descriptor-accepted", "a record of another type was accepted into the file")
                    saw_refusal = True
                    ctx.cls("refused:other-descriptor")
                    continue
                if k % 2 == 1:
                    # records of one type often come from several sources: an equal descriptor OBJECT is created anew
                    desc = RecordDescriptor(name, [tuple(f) for f in fields])
                rec = desc(*[v for v, _ in vals], _generated=gen_ts)
                representable = all(ok for _, ok in vals)
                res = impl(w.write, rec)
                k += 1
                if representable and not res.ok:
                    raise Violation("avro/representable-refused", "record %r refused: %r" % (rec, res), detail=res.type)
                if not representable:
                    bad = [(t, v) for (t, _), (v, ok) in zip(fields, vals) if not ok]
                    ctx.cls("refused:" + bad[0][0])
                    if res.ok:
                        raise Violation("avro/unrepresentable-accepted", "record with %r was accepted by write()" % (bad,),
                                        detail=bad[0][0])
                    saw_refusal = True
                    continue
                if saw_refusal:
                    refused_mid = True
                accepted.append(rec)
                if case["flush_every"] and len(accepted) % case["flush_every"] == 0:
                    w.flush()
        finally:
            cres = impl(w.close)
        if not cres.ok:
            raise Violation("avro/close-raised", "%r" % (cres,))
        if any(v is not None for r in accepted for v in [getattr(r, n) for _, n in fields]):
            ctx.nontriv()
        if refused_mid:
            ctx.cls("accepted-after-refusal")
        ctx.cls("accepted:%d" % min(len(accepted), 5))
        tag = ""
        if saw_refusal:
            return _after_refusal(p, accepted, fields, name, ctx)
        # standard reader
        def std():
            with open(p, "rb") as f:
                return list(fastavro.reader(f))

        rows = impl(std)
        if not rows.ok:
            raise Violation("avro/standard-reader-fails" + tag, "fastavro cannot read the file (%d accepted records): %r"
                            % (len(accepted), rows), detail=rows.type)
        if len(rows.value) != len(accepted):
            raise Violation("avro/row-count" + tag, "accepted %d records, the file holds %d" % (len(accepted), len(rows.value)))

        def rd():
            r = RecordReader(p)
            try:
                return list(r)
            finally:
                r.close()

        got = impl(rd)
        if not got.ok:
            raise Violation("avro/reader-fails" + tag, "AvroReader raised %r" % (got,), detail=got.type)
        if not accepted:
            return
        for a, b in zip(accepted, got.value):
            if b._desc.name != name or tuple(tuple(f) for f in b._desc.get_field_tuples()) != tuple(tuple(f) for f in fields):
                raise Violation("avro/descriptor", "read back as %r %r" % (b._desc.name, b._desc.get_field_tuples()))
            for t, n in fields:
                from props.C05 import check_slot

                check_slot(t, n, getattr(b, n), "avro read-back")  # decoded values are of the declared type (C05)
                if not expect_equal(t, getattr(a, n), getattr(b, n)):
                    raise Violation("avro/value-differs" + tag, "field %s (%s): wrote %r, read %r" % (n, t, getattr(a, n), getattr(b, n)),
                                    detail=t)
            if not expect_equal("datetime", a._generated, b._generated):
                raise Violation("avro/value-differs" + tag, "_generated: wrote %r read %r" % (a._generated, b._generated),
                                detail="_generated")
    finally:
        shutil.rmtree(tmp, ignore_errors=True)


def _after_refusal(p, accepted, fields, name, ctx):
    """After a refused record the file must still hold exactly the accepted records (one root-cause signature)."""
    from flow.record import RecordReader

    def rd():
        r = RecordReader(p)
        try:
            return list(r)
        finally:
            r.close()

    got = impl(rd)
    sig = "avro/refused-record-corrupts-neighbours"
    if not got.ok:
        raise Violation(sig, "after a refused record the file cannot be read (%d accepted records): %r" % (len(accepted), got))
    if len(got.value) != len(accepted):
        raise Violation(sig, "after a refused record the file holds %d records, %d were accepted" % (len(got.value), len(accepted)))
    for a, b in zip(accepted, got.value):
        if b._desc.name != name or tuple(tuple(f) for f in b._desc.get_field_tuples()) != tuple(tuple(f) for f in fields):
            raise Violation("avro/descriptor", "read back as %r %r" % (b._desc.name, b._desc.get_field_tuples()))
        for t, n in list(fields) + [("datetime", "_generated")]:
            if not expect_equal(t, getattr(a, n), getattr(b, n)):
                raise Violation(sig, "after a refused record field %s (%s) of an ACCEPTED record reads %r, written %r"
                                % (n, t, getattr(b, n), getattr(a, n)))


@st.composite
def unmapped_case(draw):
    t = draw(st.sampled_from(UNMAPPED + ["digest"]))
    return {"type": t, "first": draw(st.booleans())}


def check_unmapped(case, ctx):
    from flow.record import RecordDescriptor, RecordReader, RecordWriter

    t = case["type"]
    ctx.cls("unmapped:" + t)
    ctx.nontriv()
    fields = [("string", "a"), (t, "b")] if case["first"] else [(t, "b"), ("string", "a")]
    desc = RecordDescriptor("t/unmapped", fields)
    tmp = ctx.fresh_dir()
    try:
        p = os.path.join(tmp, "u.avro")
        w = RecordWriter(p)
        vals = {"a": "x"}
        if t == "digest":
            vals["b"] = ("d41d8cd98f00b204e9800998ecf8427e", None, None)
        res = impl(w.write, desc(_generated=_d.datetime(2020, 1, 1, tzinfo=UTC), **vals))
        impl(w.close)
        if res.ok:
            # accepted: then it must round-trip (never differ)
            def rd():
                r = RecordReader(p)
                try:
                    return list(r)
                finally:
                    r.close()

            got = impl(rd)
            if not got.ok or len(got.value) != 1:
                raise Violation("avro/unmapped-accepted-unreadable", "type %s accepted but file unreadable: %r" % (t, got), detail=t)
            b = got.value[0]
            if str(getattr(b, "a")) != "x":
                raise Violation("avro/unmapped-accepted-differs", "type %s accepted; neighbour field differs" % t, detail=t)
            if t != "digest":
                raise Violation("avro/unmapped-type-accepted", "field type %s is not in the Avro map but write() accepted it" % t,
                                detail=t)
    finally:
        shutil.rmtree(tmp, ignore_errors=True)


def grouped_cases(tier):
    return [{"first": f, "n": n, "with_dt": dt} for f in (True, False) for n in (1, 2, 3) for dt in (False, True)]


def check_grouped(case, ctx):
    """A grouped record handed to the Avro writer: either it is refused, or what is read back carries the values of
    its flat view - never a row of other values (nulls)."""
    from flow.record import GroupedRecord, RecordDescriptor, RecordReader, RecordWriter

    g = _d.datetime(2020, 1, 1, tzinfo=UTC)
    A = RecordDescriptor("t/ga", [("string", "a"), ("varint", "n")] + ([("datetime", "ts")] if case["with_dt"] else []))
    B = RecordDescriptor("t/gb", [("string", "b"), ("boolean", "flag")])
    ctx.nontriv()
    ctx.cls("grouped-to-avro")
    tmp = ctx.fresh_dir()
    try:
        p = os.path.join(tmp, "g.avro")
        w = RecordWriter(p)
        written = []
        if not case["first"]:
            plain = A("plain", 0, *([g] if case["with_dt"] else []), _generated=g)
            if impl(w.write, plain).ok:
                written.append(("plain", 0))
        accepted = 0
        for i in range(case["n"]):
            grp = GroupedRecord("t/ga" if not case["first"] else "t/grp",
                                [A("va%d" % i, i + 1, *([g] if case["with_dt"] else []), _generated=g, _source="src"),
                                 B("vb%d" % i, True, _generated=g)])
            res = impl(w.write, grp)
            if res.ok:
                accepted += 1
                written.append(("va%d" % i, i + 1))
        cres = impl(w.close)
        if not accepted:
            ctx.cls("grouped:refused")
            return
        ctx.cls("grouped:accepted")
        if not cres.ok:
            raise Violation("avro/grouped/close-raised", "%r" % (cres,))

        def rd():
            r = RecordReader(p)
            try:
                return [(None if x.a is None else str(x.a), None if x.n is None else int(x.n)) for x in r]
            finally:
                r.close()

        got = impl(rd)
        if not got.ok:
            raise Violation("avro/grouped/accepted-unreadable", "%d grouped records accepted, file unreadable: %r" % (accepted, got))
        if got.value != written:
            raise Violation("avro/grouped/accepted-differs", "grouped records were accepted by write() but read back as %r, "
                            "written (a, n) = %r" % (got.value, written))
    finally:
        shutil.rmtree(tmp, ignore_errors=True)


def parts(tier):
    return [
        Part("mapped", check, strategy=case_strategy(), examples=(300, 15000)),
        Part("grouped-records", check_grouped, cases=grouped_cases, exhaustive=True),
        Part("unmapped", check_unmapped, strategy=unmapped_case(), examples=(10, 60)),
    ]
