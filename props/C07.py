"""C07 - Both selector engines compute the Python meaning of the expression."""
from hypothesis import strategies as st

from vlib import selgen
from vlib.runner import Part, Violation, impl

LEVEL = "exploration"
RULE = (
    "Grammar-generated, well-typed selector expressions (comparisons incl. chains of 2-3 operators, and/or/not, "
    "+ * / % & |, in / not in, literals, lists/tuples, attribute access, helpers lower upper name names has_field "
    "field_contains field_equals field_regex get_type str repr, constructors net.ipnetwork/net.ipaddress/string, "
    "Type.<type>[.attr] matchers, any/all generator expressions with 1-2 for clauses and if clauses; depth <=3 "
    "quick, <=5 thorough) x generated records (matching and non-matching values, nested record / record[] for "
    "Type.*). Oracle: independent reference evaluator = Python eval over the raw record with re-implemented helpers "
    "and Type matcher. Both Selector and CompiledSelector must return bool(reference). A second part embeds one "
    "construct outside the engine's operator tables (- // ** ^ << unary ops, subscript, lambda, conditional, "
    "comprehensions, dict/set displays, f-string, walrus, starred, method call, is): each engine must raise or return "
    "the Python value. Non-trivial = defined case whose source has >=4 AST nodes of >=2 kinds; distinct by "
    "(source, record)."
    " Also: calls on literals that are equal in Python but of different types, membership in literal lists of 8-100 items, and every bare name that is a proper prefix or near miss of a whitelisted root name (must be rejected)."
)
ASSUMPTIONS = [
    "'arithmetic and bit operators' is read as the operators in the engine's own table at the pinned revision: "
    "+ * / % & |",
    "Type.<t> in <container> is documented interpreted-only and is not generated; get_type/str/repr are applied to "
    "field values only",
    "expressions whose Python evaluation raises are outside the domain (counted as undefined)",
]


def engines():
    from flow.record.selector import CompiledSelector, Selector

    return (("interpreted", Selector), ("compiled", CompiledSelector))


def _nontrivial(src):
    import ast

    kinds = [type(n).__name__ for n in ast.walk(ast.parse(src, mode="eval"))]
    kinds = [k for k in kinds if k not in ("Load", "Expression")]
    return len(kinds) >= 4 and len(set(kinds)) >= 2


BUCKETS = ["ctor:string", "chain:", "gen:if", "gen:two-for", "gen:", "Type:contains", "Type:attr", "Type:as-fieldlist",
           "Type", "helper:field_contains", "helper:field_equals", "helper:field_regex", "helper:has_field",
           "helper:names", "helper:name", "helper:get_type", "helper:lower", "helper:upper", "func:", "ctor:net",
           "none-valued-field", "seq:", "binop:", "cmp:not in", "cmp:in", "boolop:", "literal:", "cmp:"]


def bucket(feats):
    """Heuristic root-cause bucket of a (shrunk) failing expression: the first construct family present."""
    for b in BUCKETS:
        for f in feats:
            if f.startswith(b):
                return b.rstrip(":")
    return "plain"


def check_documented(case, ctx):
    rec = selgen.build_record(case["vals"])
    src = case["expr"]["src"]
    feats = case["expr"]["features"]
    if selgen.touches_dropped_field(src, case["vals"]):
        ctx.cls("undefined:missing-field-in-variant")
        return
    ref = impl(selgen.reference_eval, src, rec)
    if not ref.ok:
        ctx.cls("undefined:" + ref.type)
        return
    expected = bool(ref.value)
    ctx.cls(*feats)
    ctx.cls("value:%s" % expected)
    if _nontrivial(src):
        ctx.nontriv()
    detail = bucket(feats)
    for ename, cls in engines():
        sel = impl(cls, src)
        if not sel.ok:
            raise Violation("%s/compile-raised:%s" % (ename, sel.type), "%s: %r" % (src, sel), detail=detail)
        res = impl(sel.value.match, rec)
        if not res.ok:
            raise Violation("%s/raised:%s" % (ename, res.type),
                            "%s raised %r; Python value is %r; record %r" % (src, res, ref.value, case["vals"]),
                            detail=detail)
        if bool(res.value) != expected:
            raise Violation("%s/wrong-value" % ename,
                            "%s -> %r, Python value %r; record %r" % (src, res.value, ref.value, case["vals"]),
                            detail=detail)


def check_outside(case, ctx):
    rec = selgen.build_record(case["vals"])
    src = case["expr"]["src"]
    label = case["expr"]["outside"]
    if selgen.touches_dropped_field(src, case["vals"]):
        return
    ref = impl(selgen.reference_eval, src, rec)
    if not ref.ok:
        ctx.cls("undefined:" + ref.type)
        return
    expected = bool(ref.value)
    ctx.cls("outside:" + label)
    ctx.nontriv()
    for ename, cls in engines():
        sel = impl(cls, src)
        if not sel.ok:
            ctx.cls("%s:rejected-at-compile" % ename)
            continue
        res = impl(sel.value.match, rec)
        if not res.ok:
            ctx.cls("%s:rejected" % ename)
            continue
        ctx.cls("%s:evaluated" % ename)
        if bool(res.value) != expected:
            raise Violation("%s/outside-language-evaluated-differently" % ename,
                            "%s -> %r but Python gives %r (must be rejected or mean the same); record %r"
                            % (src, res.value, ref.value, case["vals"]), detail=label)


def undefined_name_cases(tier):
    """Bare names that denote nothing in the language - above all the ones that LOOK like the beginning of a
    whitelisted type name ('s', 'strin', 'uint', 'ne': what is left of 'r.s' or 'string(..)' after a typo)."""
    from flow.record.whitelist import WHITELIST

    roots = sorted({w.split(".")[0] for w in WHITELIST})
    defined = set(roots) | {"r", "Type", "True", "False", "None", "str", "repr", "any", "all", "fields", "lower", "upper",
                            "names", "name", "get_type", "has_field", "field_regex", "field_equals", "field_contains"}
    import builtins

    defined |= set(dir(builtins))  # (the compiled engine is Python: 'bool == 1' means what it means in Python)
    names = []
    for root in roots:
        for k in range(1, len(root)):
            if root[:k] not in defined and root[:k] not in names:
                names.append(root[:k])
        for extra in (root + "x", root + "_", root.upper(), root.capitalize()):
            if extra not in defined and extra not in names:
                names.append(extra)
    names += [n for n in ["foo", "x", "rr", "record_", "typ", "Typ", "Types", "nets"] if n not in defined]
    forms = ["{N} == 'x'", "{N} != 1", "r.s == {N}", "{N} in ['x']", "'x' in {N}", "lower({N}) == 'x'", "{N}.a == 1",
             "not {N}", "{N} or r.n == 1", "r.n == 0 and {N} == 1", "any(q == {N} for q in [1])", "{N}('x') == 'x'", "{N}"]
    return [{"name": n, "src": f.format(N=n)} for n in names for f in forms]


def check_undefined_name(case, ctx):
    rec = selgen.build_record(selgen.DEFAULT_VALUES) if hasattr(selgen, "DEFAULT_VALUES") else None
    if rec is None:
        from flow.record import RecordDescriptor

        rec = RecordDescriptor("c07/u", [("string", "s"), ("varint", "n")])("x", 0)
    src = case["src"]
    ctx.nontriv()
    ctx.cls("undefined-name:len%d" % min(len(case["name"]), 4))
    for ename, cls in engines():
        sel = impl(cls, src)
        if not sel.ok:
            ctx.cls("%s:rejected-at-compile" % ename)
            continue
        res = impl(sel.value.match, rec)
        if not res.ok:
            ctx.cls("%s:rejected" % ename)
            continue
        raise Violation("%s/undefined-name-evaluated" % ename, "%s -> %r although %r names nothing in the selector language "
                        "(Python: NameError)" % (src, res.value, case["name"]))


def documented_cases(depth):
    return st.fixed_dictionaries({"expr": selgen.expressions(depth), "vals": selgen.record_values()})


def outside_cases():
    return st.fixed_dictionaries({"expr": selgen.unsupported_expressions(), "vals": selgen.record_values()})


def parts(tier):
    return [
        Part("documented-depth3", check_documented, strategy=documented_cases(3), examples=(1500, 15000)),
        Part("documented-deep", check_documented, strategy=documented_cases(5), examples=(500, 6000)),
        Part("outside-language", check_outside, strategy=outside_cases(), examples=(400, 3000)),
        Part("undefined-names", check_undefined_name, cases=undefined_name_cases, exhaustive=True),
    ]
