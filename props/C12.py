"""C12 - Record equality and hashing obey the value-object contract."""
import struct

from hypothesis import strategies as st

from vlib import gen, refcodec
from vlib.caseio import M
from vlib.runner import Part, Violation, impl

LEVEL = "exploration"
RULE = (
    "Generated records over all field types (scalar and list), nested and grouped; for each: an independently "
    "rebuilt copy, single-field variations whose new value is clearly different (other integer, text, instant, "
    "flavour, address or family, digest triple, list length/order - grey pairs such as 0.0/-0.0, NaN, one instant "
    "under two offsets are not used on either side), a same-values record of another descriptor, a non-record; "
    "under ignored-field configurations (none, the varied field, another field, metadata fields; set globally and "
    "via the context manager, nested, and exited by an exception). Oracle: r == r; (r == s) == (s == r); ==/!= never "
    "raise and are complementary; copy equal with equal hash; variation unequal unless the varied field is ignored, "
    "then equal with equal hash; hash never raises; set/dict lookup works; after any scope exit the ignored-field "
    "configuration is the pre-scope one. Non-trivial = record with >=1 non-None field and >=1 variation; distinct by "
    "case digest."
)
ASSUMPTIONS = [
    "value equality is decided by /verif on clear pairs only (typed models of vlib/refcodec.py)",
    "NaN-bearing records are excluded from the 'copy must be equal' side only",
]


def has_nan(m):
    if isinstance(m, tuple):
        if len(m) == 2 and m[0] == "float" and isinstance(m[1], bytes):
            f = struct.unpack(">d", m[1])[0]
            return f != f
        return any(has_nan(x) for x in m)
    return False


def instant(m):
    import datetime as _d

    _, Y, Mo, D, h, mi, s, us, off = m
    return _d.datetime(Y, Mo, D, h, mi, s, us) - _d.timedelta(microseconds=off) if 1 < Y < 9999 else (Y, Mo, D, h, mi, s, us, off)


def clearly_different(a, b):
    """a, b: value models of one field. True only when they denote different things beyond doubt."""
    if a == b:
        return False
    if a[0] != b[0]:
        return a[0] not in ("float", "int", "bool") or b[0] not in ("float", "int", "bool")
    k = a[0]
    if k == "float":
        x, y = struct.unpack(">d", a[1])[0], struct.unpack(">d", b[1])[0]
        return x == x and y == y and x != y
    if k == "dt":
        ia, ib = instant(a), instant(b)
        return type(ia) is type(ib) and ia != ib and not isinstance(ia, tuple)
    if k == "list":
        if len(a[1]) != len(b[1]):
            return True
        diffs = [(x, y) for x, y in zip(a[1], b[1]) if x != y]
        return bool(diffs) and all(clearly_different(x, y) for x, y in diffs)
    if k == "dict":
        return False
    if k in ("record", "grouped"):
        return False
    if k == "int":
        return a[1] != b[1]
    return True


@st.composite
def case_strategy(draw):
    kind = draw(st.sampled_from(["plain", "plain", "plain", "grouped", "nested"]))
    if kind == "grouped":
        spec = draw(gen.grouped_spec(0))
        variations = []
        # vary one field of the first member
        first = spec.p["recs"][0]
        if first.kind == "plain" and first.p["desc"][1]:
            i = draw(st.integers(0, len(first.p["desc"][1]) - 1))
            variations.append((0, i, draw(gen.value_for(first.p["desc"][1][i][0], 2))))
    else:
        types = None if kind == "plain" else ["record", "record[]", "string", "varint"]
        d = draw(gen.descriptor_spec(0, types, max_fields=4))
        spec = M("plain", draw(gen.record_spec(0, desc=d, types=types)))
        variations = []
        for _ in range(draw(st.integers(0, 3))):
            if not d[1]:
                break
            i = draw(st.integers(0, len(d[1]) - 1))
            variations.append((None, i, draw(gen.value_for(d[1][i][0], 1, types))))
        # the same 32-bit number as an address of the other family (1.2.3.4 / ::1.2.3.4): different addresses
        for i, (t, _) in enumerate(d[1]):
            v = spec.p["vals"][i]
            if t in ("net.ipaddress", "net.IPAddress") and isinstance(v, str):
                import ipaddress as _ipa

                a = _ipa.ip_address(v)
                if int(a) < 2**32:
                    twin = str(_ipa.IPv6Address(int(a))) if a.version == 4 else str(_ipa.IPv4Address(int(a)))
                    variations.append((None, i, twin))
    if kind not in ("grouped",) and spec.kind == "plain":
        # grey twins on purpose: the same number with the other sign of zero / as the other numeric type
        for i, (t, _) in enumerate(spec.p["desc"][1]):
            v = spec.p["vals"][i]
            if t == "float" and isinstance(v, float) and v == 0.0:
                variations.append((None, i, -v))
            elif t == "float[]" and isinstance(v, list) and any(isinstance(x, float) and x == 0.0 for x in v):
                variations.append((None, i, [(-x if isinstance(x, float) and x == 0.0 else x) for x in v]))
            elif t == "float" and v is not None and draw(st.integers(0, 3)) == 0:
                variations.append((None, i, 0.0 if draw(st.booleans()) else -0.0))
    ignore_mode = draw(st.sampled_from(["none", "varied", "other", "meta", "ctx-varied", "ctx-nested", "ctx-exception",
                                        "ctx-exception"]))
    return {"spec": spec, "variations": variations, "ignore": ignore_mode,
            # how the scope ends when it ends with an error: any exception class, also the ones outside Exception,
            # and a generator holding the scope open that is closed / abandoned
            "exc": draw(st.sampled_from(SCOPE_ERRORS)),
            # the configuration is "an iterable of names": given as a list, set, tuple, dict view or a one-shot iterator
            "ign_form": draw(st.sampled_from(["list", "list", "set", "tuple", "generator", "iter", "dict-keys", "map"])),
            "other_name": draw(gen.type_name()),
            # long-running processes evict record classes from the 4096-entry cache: an equal record may be an
            # instance of a re-generated class
            "evict": draw(st.booleans())}


def vary(spec, var):
    member, i, newval = var
    import copy

    s2 = copy.deepcopy(spec)
    target = s2.p if member is None else s2.p["recs"][member].p
    target["vals"][i] = newval
    return s2, target["desc"][1][i]


def safe_eq(a, b, where):
    r1 = impl(lambda: a == b)
    r2 = impl(lambda: a != b)
    if not r1.ok:
        raise Violation("eq-raised", "%s: == raised %r" % (where, r1), detail=r1.type)
    if not r2.ok:
        raise Violation("ne-raised", "%s: != raised %r" % (where, r2), detail=r2.type)
    if bool(r1.value) == bool(r2.value):
        raise Violation("eq-ne-not-complementary", "%s: == gives %r and != gives %r" % (where, r1.value, r2.value))
    return bool(r1.value)


def safe_hash(a, where):
    r = impl(hash, a)
    if not r.ok:
        raise Violation("hash-raised", "%s: hash() raised %r" % (where, r), detail=_hash_detail(a))
    return r.value


def _hash_detail(rec):
    try:
        if hasattr(rec, "records"):
            return "grouped"
        ts = sorted({t.replace("[]", "") for t, n in rec._desc.get_field_tuples() if getattr(rec, n) not in (None, [])})
        for t in ("command", "dictlist", "record", "dynamic"):
            if t in ts:
                return t
        return "plain"
    except Exception:
        return "?"


def check(case, ctx):
    import flow.record.base as base
    from flow.record import ignore_fields_for_comparison, set_ignored_fields_for_comparison

    spec = case["spec"]
    b1 = impl(gen.build_any_record, spec)
    if case.get("evict"):
        base._generate_record_class.cache_clear()
        ctx.cls("copy-built-after-class-cache-eviction")
    b2 = impl(gen.build_any_record, spec)
    if not b1.ok or not b2.ok:
        ctx.cls("discarded:constructor-raised")
        return
    r, copy_ = b1.value, b2.value
    model = refcodec.record_model(r)
    labels = set()
    gen.classify_any(spec, labels)
    ctx.cls(*labels)
    ctx.cls("ignore:" + case["ignore"], "kind:" + spec.kind)
    set_ignored_fields_for_comparison(set())
    pre = set(base.IGNORE_FIELDS_FOR_COMPARISON)
    try:
        # reflexive, non-record, hashable
        if not safe_eq(r, r, "r == r"):
            raise Violation("not-reflexive", "record is not equal to itself: %r" % (r,))
        if safe_eq(r, 5, "r == 5") or safe_eq(r, "x", "r == 'x'") or safe_eq(r, None, "r == None"):
            raise Violation("equal-to-non-record", "record equals a non-record")
        h = safe_hash(r, "hash(r)")
        if safe_hash(r, "hash(r) again") != h:
            raise Violation("hash-unstable", "hash(r) changed between two calls")
        # copy
        if not has_nan(model):
            e1, e2 = safe_eq(r, copy_, "r == copy"), safe_eq(copy_, r, "copy == r")
            if e1 != e2:
                raise Violation("not-symmetric", "r == copy is %r, copy == r is %r" % (e1, e2))
            if not e1:
                raise Violation("copy-unequal", "independently rebuilt copy compares unequal: %r" % (r,))
            if safe_hash(copy_, "hash(copy)") != h:
                raise Violation("equal-but-hash-differs", "copy is equal but hash differs: %r" % (r,))
            if copy_ not in {r} or {r: 1}.get(copy_) != 1:
                raise Violation("set-dict-lookup", "copy not found in {r} / {r: 1}")
        # other descriptor, same values
        if spec.kind == "plain":
            o = dict(spec.p)
            o["desc"] = (case["other_name"] if case["other_name"] != spec.p["desc"][0] else case["other_name"] + "x",
                         spec.p["desc"][1])
            ob = impl(gen.build_record, o)
            if ob.ok and safe_eq(r, ob.value, "r == same-values-other-descriptor"):
                raise Violation("equal-across-descriptors", "records of %r and %r compare equal" % (spec.p["desc"][0], o["desc"][0]))
        # records of every OTHER kind on the other side (plain / nested / grouped, also one with a field called
        # 'name' or 'records'): unequal in both directions, != the negation, never an exception, list membership works
        for label, mk in FOREIGN_RECORDS:
            fo = impl(mk)
            if not fo.ok:
                continue
            o_ = fo.value
            e1, e2 = safe_eq(r, o_, "r == " + label), safe_eq(o_, r, label + " == r")
            if e1 != e2:
                raise Violation("not-symmetric", "r == %s is %r, %s == r is %r" % (label, e1, label, e2), detail="foreign-record")
            n1 = impl(lambda: r != o_)
            if not n1.ok:
                raise Violation("eq-raised", "r != %s raised %r" % (label, n1), detail=n1.type)
            if bool(n1.value) == e1:
                raise Violation("ne-not-negation", "r == %s is %r and r != it is %r" % (label, e1, n1.value))
            m1 = impl(lambda: (o_ in [r, r]) , )
            m2 = impl(lambda: (r in [o_, o_]))
            if not m1.ok or not m2.ok:
                raise Violation("eq-raised", "membership test between r and %s raised %r / %r" % (label, m1, m2), detail="in-list")
        # variations
        nvar = 0
        for var in case["variations"]:
            s2, (ftype, fname) = vary(spec, var)
            vb = impl(gen.build_any_record, s2)
            if not vb.ok:
                continue
            v = vb.value
            mv = refcodec.record_model(v)
            fa = _field_model(model, var)
            fb = _field_model(mv, var)
            if not clearly_different(fa, fb) or has_nan(model) or has_nan(mv):
                ctx.cls("variation:grey-or-same")
                # whether a grey pair (0.0 / -0.0, 1 / 1.0 inside a dictlist, one instant under two offsets) is equal is
                # not for /verif to say - but whatever the library answers, the rest of the contract follows from it:
                # symmetric, and equal records hash alike and count once in a set
                ge1, ge2 = safe_eq(r, v, "grey pair"), safe_eq(v, r, "grey pair")
                if ge1 != ge2:
                    raise Violation("not-symmetric", "grey pair, field %s (%s): %r vs %r" % (fname, ftype, fa, fb))
                if ge1 and not has_nan(model) and not has_nan(mv):
                    h1, h2 = safe_hash(r, "hash(r)"), safe_hash(v, "hash(grey twin)")
                    if h1 != h2:
                        raise Violation("equal-records-hash-differently", "field %s (%s): %r and %r compare equal but their "
                                        "hashes differ" % (fname, ftype, fa, fb), detail=ftype.replace("[]", ""))
                continue
            nvar += 1
            ctx.cls("variation:clear")
            where = "field %s (%s): %r vs %r" % (fname, ftype, fa, fb)
            e1, e2 = safe_eq(r, v, where), safe_eq(v, r, where)
            if e1 != e2:
                raise Violation("not-symmetric", where)
            if e1:
                raise Violation("different-values-equal", "records differing in %s compare equal" % where,
                                detail=ftype.replace("[]", ""))
            safe_hash(v, "hash(variation)")
            mode = case["ignore"]
            if mode == "none":
                continue
            others = [n for _, n in (spec.p["desc"][1] if spec.kind == "plain" else [])] + ["_source"]
            ign = {"varied": [fname], "other": [x for x in others if x != fname][:1], "meta": ["_generated", "_source"],
                   "ctx-varied": [fname], "ctx-nested": [fname], "ctx-exception": [fname]}[mode]
            expect_equal = fname in ign
            names = list(ign)
            form = case.get("ign_form", "list")

            def shaped():
                # a fresh object per use: one-shot iterators are spent after one pass
                return {"list": lambda: list(names), "set": lambda: set(names), "tuple": lambda: tuple(names),
                        "generator": lambda: (n for n in names), "iter": lambda: iter(names),
                        "dict-keys": lambda: dict.fromkeys(names).keys(), "map": lambda: map(str, names)}[form]()

            ctx.cls("ignore-config-given-as:" + form)
            if mode in ("varied", "other", "meta"):
                set_ignored_fields_for_comparison(shaped())
                try:
                    _ignored_expect(r, v, expect_equal, where, mode)
                finally:
                    set_ignored_fields_for_comparison(set())
            elif mode == "ctx-varied":
                with ignore_fields_for_comparison(shaped()):
                    _ignored_expect(r, v, expect_equal, where, mode)
            elif mode == "ctx-nested":
                with ignore_fields_for_comparison(["_source"]):
                    with ignore_fields_for_comparison(ign):
                        _ignored_expect(r, v, expect_equal, where, mode)
                    if set(base.IGNORE_FIELDS_FOR_COMPARISON) != {"_source"}:
                        raise Violation("scope-not-restored", "inner scope exit left %r, expected {'_source'}"
                                        % (base.IGNORE_FIELDS_FOR_COMPARISON,), detail="nested")
            else:
                kind = case.get("exc", "KeyError")
                mode = "ctx-exception:" + kind
                if kind.startswith("decorator"):
                    # the scope in its decorator form: one decorator object, entered again while it is active
                    deco = ignore_fields_for_comparison(ign)
                    seen_inside = []

                    @deco
                    def inner(depth):
                        seen_inside.append(safe_eq(r, v, where + " [inside decorated call]"))
                        if depth and kind != "decorator":
                            if kind == "decorator-on-caller-and-callee":
                                callee()
                            else:
                                try:
                                    inner(depth - 1)
                                except KeyError:
                                    pass
                        if kind == "decorator-recursive-error" and not depth:
                            raise KeyError("innermost call ends with an error")

                    @deco
                    def callee():
                        seen_inside.append(safe_eq(r, v, where + " [inside decorated callee]"))

                    inner(2)
                    if expect_equal and not all(seen_inside):
                        raise Violation("ignored-field-still-compared", "%s ignored (%s) but records unequal inside the "
                                        "decorated call" % (where, mode))
                elif kind.startswith("generator-"):
                    def holder():
                        with ignore_fields_for_comparison(ign):
                            yield 1
                            yield 2

                    g = holder()
                    next(g)
                    _ignored_expect(r, v, expect_equal, where, mode)
                    if kind == "generator-close":
                        g.close()
                    else:
                        try:
                            g.throw(_ScopeBaseError("thrown into the generator"))
                        except _ScopeBaseError:
                            pass
                    del g
                else:
                    exc_cls = _scope_error_class(kind)
                    try:
                        with ignore_fields_for_comparison(ign):
                            _ignored_expect(r, v, expect_equal, where, mode)
                            raise exc_cls("scope ends with an error")
                    except exc_cls:
                        pass
            now = set(base.IGNORE_FIELDS_FOR_COMPARISON)
            if now != pre:
                raise Violation("scope-not-restored", "after %s the ignored-field configuration is %r, before it was %r"
                                % (mode, now, pre), detail=mode)
            if safe_eq(r, v, where + " after scope"):
                raise Violation("scope-not-restored", "records still compare equal after the scope ended", detail=mode)
        if nvar and gen.has_nonnone(spec):
            ctx.nontriv()
    finally:
        set_ignored_fields_for_comparison(set())


SCOPE_ERRORS = ["decorator", "decorator-recursive", "decorator-recursive-error", "decorator-on-caller-and-callee", "KeyError", "ValueError", "custom-Exception", "StopIteration", "KeyboardInterrupt", "SystemExit",
                "GeneratorExit", "custom-BaseException", "CancelledError", "generator-close", "generator-throw"]


class _ScopeError(Exception):
    pass


class _ScopeBaseError(BaseException):
    pass


def _scope_error_class(kind):
    import asyncio

    return {"KeyError": KeyError, "ValueError": ValueError, "custom-Exception": _ScopeError, "StopIteration": StopIteration,
            "KeyboardInterrupt": KeyboardInterrupt, "SystemExit": SystemExit, "GeneratorExit": GeneratorExit,
            "custom-BaseException": _ScopeBaseError, "CancelledError": asyncio.CancelledError}[kind]


def _foreign_records():
    import datetime as _d

    from flow.record import GroupedRecord, RecordDescriptor

    g = _d.datetime(2020, 1, 1, tzinfo=_d.timezone.utc)
    P = RecordDescriptor("c12/plain", [("string", "s"), ("varint", "n")])
    N = RecordDescriptor("c12/named", [("string", "name"), ("stringlist", "records")])
    H = RecordDescriptor("c12/holder", [("record", "inner"), ("record[]", "many")])
    return [
        ("plain", lambda: P("x", 1, _generated=g)),
        ("plain-with-name-field", lambda: N("c12/grp", ["a"], _generated=g)),
        ("nested", lambda: H(P("i", 2, _generated=g), [P("j", 3, _generated=g)], _generated=g)),
        ("grouped", lambda: GroupedRecord("c12/grp", [P("x", 1, _generated=g), N("n", [], _generated=g)])),
        ("grouped-of-grouped", lambda: GroupedRecord("c12/outer", [GroupedRecord("c12/grp", [P("x", 1, _generated=g),
                                                                                            N("n", [], _generated=g)]),
                                                                 H(None, [], _generated=g)])),
        ("empty-type", lambda: RecordDescriptor("c12/empty", [])(_generated=g)),
    ]


FOREIGN_RECORDS = _foreign_records()


def _ignored_expect(r, v, expect_equal, where, mode):
    e = safe_eq(r, v, where + " [ignored]")
    if e != safe_eq(v, r, where + " [ignored, swapped]"):
        raise Violation("not-symmetric", where + " under ignore")
    if expect_equal and not e:
        raise Violation("ignored-field-still-compared", "%s ignored (%s) but records unequal" % (where, mode))
    if not expect_equal and e:
        raise Violation("different-values-equal", "%s: an unrelated ignored field made records equal" % where, detail="ignored-other")
    if expect_equal:
        if safe_hash(r, "hash under ignore") != safe_hash(v, "hash under ignore"):
            raise Violation("equal-but-hash-differs", "%s ignored: equal records hash differently" % where, detail="ignored")


def _field_model(model, var):
    member, i, _ = var
    m = model if member is None else model[2][member]
    return m[3][i]


ENV_WORKER = r"""
import json, os, sys, datetime
sys.path.insert(0, os.environ["VERIF_REPO"])
from flow.record import RecordDescriptor
import flow.record.base as base
U = datetime.timezone.utc
D = RecordDescriptor("c12/env", [("string", "a"), ("varint", "b")])
r1 = D("x", 1, _source="s1", _generated=datetime.datetime(2020, 1, 1, tzinfo=U))
pairs = {
  "same": D("x", 1, _source="s1", _generated=datetime.datetime(2020, 1, 1, tzinfo=U)),
  "a": D("y", 1, _source="s1", _generated=datetime.datetime(2020, 1, 1, tzinfo=U)),
  "b": D("x", 2, _source="s1", _generated=datetime.datetime(2020, 1, 1, tzinfo=U)),
  "_source": D("x", 1, _source="s2", _generated=datetime.datetime(2020, 1, 1, tzinfo=U)),
  "_generated": D("x", 1, _source="s1", _generated=datetime.datetime(2021, 1, 1, tzinfo=U)),
}
out = {"config": sorted(base.IGNORE_FIELDS_FOR_COMPARISON)}
for k, r2 in pairs.items():
    out[k] = [r1 == r2, r2 == r1, hash(r1) == hash(r2)]
# an explicitly EMPTY configuration (global, and as a scope) overrides the environment default
from flow.record import set_ignored_fields_for_comparison, ignore_fields_for_comparison
initial = set(base.IGNORE_FIELDS_FOR_COMPARISON)
set_ignored_fields_for_comparison(set())
out["after_set_empty"] = sorted(base.IGNORE_FIELDS_FOR_COMPARISON)
out["strict"] = {k: (r1 == r2) for k, r2 in pairs.items()}
set_ignored_fields_for_comparison(initial)
with ignore_fields_for_comparison([]):
    out["in_empty_scope"] = sorted(base.IGNORE_FIELDS_FOR_COMPARISON)
    out["strict_scope"] = {k: (r1 == r2) for k, r2 in pairs.items()}
out["after_scope"] = sorted(base.IGNORE_FIELDS_FOR_COMPARISON)
print(json.dumps(out))
"""


def env_cases(tier):
    return [{"env": e} for e in (None, "_generated", "_generated,_source", "a", "a,b,_source,_generated", "nosuchfield")]


def check_env(case, ctx):
    """FLOW_RECORD_IGNORE is the process-wide initial ignored-field configuration (read at import)."""
    import json
    import os
    import subprocess
    import sys

    from vlib.runner import REPO

    env = dict(os.environ, VERIF_REPO=REPO)
    env.pop("FLOW_RECORD_IGNORE", None)
    if case["env"] is not None:
        env["FLOW_RECORD_IGNORE"] = case["env"]
    p = subprocess.run([sys.executable, "-c", ENV_WORKER], env=env, stdout=subprocess.PIPE, stderr=subprocess.PIPE, timeout=120)
    ctx.nontriv()
    ctx.cls("FLOW_RECORD_IGNORE=%s" % case["env"])
    if p.returncode != 0:
        raise Violation("env/worker-failed", p.stderr.decode("utf8", "replace")[-600:])
    out = json.loads(p.stdout.decode().strip().splitlines()[-1])
    ignored = set(case["env"].split(",")) if case["env"] else set()
    if set(out["config"]) != ignored:
        raise Violation("env/config", "FLOW_RECORD_IGNORE=%r gives configuration %r" % (case["env"], out["config"]))
    for k in ("same", "a", "b", "_source", "_generated"):
        eq1, eq2, heq = out[k]
        exp = k == "same" or k in ignored
        if eq1 != eq2:
            raise Violation("not-symmetric", "env %r pair %s" % (case["env"], k))
        if eq1 != exp:
            raise Violation("env/equality", "FLOW_RECORD_IGNORE=%r: records differing in %s compare %s, expected %s"
                            % (case["env"], k, eq1, exp), detail="ignored" if k in ignored else "not-ignored")
        if exp and not heq:
            raise Violation("equal-but-hash-differs", "FLOW_RECORD_IGNORE=%r pair %s" % (case["env"], k), detail="env")
    if out["after_set_empty"] or out["in_empty_scope"]:
        raise Violation("env/empty-configuration-not-empty", "FLOW_RECORD_IGNORE=%r: after configuring NO ignored fields the "
                        "configuration is %r (scope: %r)" % (case["env"], out["after_set_empty"], out["in_empty_scope"]))
    for key in ("strict", "strict_scope"):
        for k, eq in out[key].items():
            if eq != (k == "same"):
                raise Violation("env/empty-configuration-still-ignores", "FLOW_RECORD_IGNORE=%r, empty configuration (%s): "
                                "records differing in %s compare %s" % (case["env"], key, k, eq))
    if set(out["after_scope"]) != ignored:
        raise Violation("scope-not-restored", "FLOW_RECORD_IGNORE=%r: after an empty scope the configuration is %r"
                        % (case["env"], out["after_scope"]), detail="env")


def parts(tier):
    return [Part("value-object", check, strategy=case_strategy(), examples=(300, 5000)),
            Part("env-configuration", check_env, cases=env_cases, exhaustive=True, shards=6)]
