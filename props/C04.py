"""C04 - A damaged stream yields an intact prefix, never altered records."""
import gzip
import io
import os
import shutil
import zlib

from hypothesis import strategies as st

from vlib import gen, refcodec
from vlib.faults import FaultyFile
from vlib.observe import diff, observe
from vlib.runner import Part, Violation, impl

LEVEL = "fault_enumeration"
RULE = (
    "Hypothesis-generated small streams (1-6 records, 1-3 descriptors incl. nested and grouped, frames 10 B - 3 kB), "
    "raw and gzip. Per stream, EVERY byte offset 0..len is cut (exhaustive per stream) and read with "
    "RecordStreamReader and RecordReader(fileobj/path); and EVERY write-call index k x kept bytes j in "
    "{0,1,len/2,len-1} is failed on the writer's file object (RecordStreamWriter, StreamWriter adapter, gzip), "
    "fail-stop. Oracle: frame table of the undamaged stream from the reference codec (for gzip: independent "
    "zlib inflate of the damaged bytes); the reader must yield exactly the records whose frames are complete, "
    "unmodified and in order, then end or raise; a cut at a frame boundary reads without error. Non-trivial = "
    "(stream, cut) with the cut strictly inside a record or descriptor frame; distinct by (stream digest, offset)."
)
ASSUMPTIONS = [
    "fail-stop fault model: after a failed/short write the writer is abandoned (close errors ignored)",
    "bit flips are outside the property (cuts and failed writes only)",
    "atomicity inside one write() call of the in-memory file object is assumed",
]


def small_values_types():
    return [t for t in gen.ALL_TYPES]


@st.composite
def stream_spec(draw):
    seq = draw(gen.sequence_spec(max_len=5, max_desc=3))
    if not seq:
        seq = [gen.M("plain", draw(gen.record_spec(0)))]
    if draw(st.integers(0, 3)) == 0:
        # generations of ONE record type: every plain record's type gets the same name (the field lists differ)
        names = [m.p["desc"][0] for m in seq if m.kind == "plain"]
        if names:
            seq = [gen.M("plain", dict(m.p, desc=(names[0], m.p["desc"][1]))) if m.kind == "plain" else m for m in seq]
    flush = [draw(st.booleans()) for _ in seq]
    # a stream may be the work of several writer sessions appending to one file (each starts with its own header)
    split_at = draw(st.one_of(st.none(), st.none(), st.integers(0, len(seq))))
    return {"seq": seq, "flush": flush, "sample": draw(st.lists(st.integers(0, 10**6), min_size=4, max_size=4)),
            "second_session_at": split_at}


class Keep(io.BytesIO):
    def close(self):
        pass


def _write_all(records, flush, fp, wrap):
    """Write records through writer kind `wrap` onto fp. Returns None or the exception that stopped it."""
    from flow.record import RecordStreamWriter
    from flow.record.adapter.stream import StreamWriter

    exc = None
    writer = None
    gz = None
    try:
        if wrap == "stream":
            writer = RecordStreamWriter(fp)
        elif wrap == "adapter":
            writer = StreamWriter(fp)
        elif wrap == "gz":
            gz = gzip.GzipFile(fileobj=fp, mode="wb", mtime=0)
            writer = RecordStreamWriter(gz)
        for r, fl in zip(records, flush):
            writer.write(r)
            if fl:
                writer.flush()
                if gz is not None:
                    gz.flush()
        writer.flush()
        if gz is not None:
            gz.close()
    except OSError as e:
        exc = e
    # abandon: close, ignoring errors (fail-stop semantics)
    for obj in (writer, gz):
        if obj is not None:
            try:
                obj.close()
            except Exception:
                pass
    return exc


def _read_prefix(open_reader):
    """Iterate a reader, return (records yielded, exception or None)."""
    out = []
    exc = None
    rd = None
    try:
        rd = open_reader()
        for r in rd:
            out.append(r)
    except BaseException as e:  # noqa: B902
        if isinstance(e, (KeyboardInterrupt, SystemExit, MemoryError)):
            raise
        exc = e
    # a reader that reached the end of its input is exhausted: iterating the same object once more (a retry /
    # polling loop) must not produce records again.  (After an exception nothing is claimed about resuming.)
    if rd is not None and exc is None:
        again = []
        try:
            for r in rd:
                again.append(r)
                if len(again) > 3:
                    break
        except BaseException as e:  # noqa: B902
            if isinstance(e, (KeyboardInterrupt, SystemExit, MemoryError)):
                raise
        if again:
            raise Violation("reader/second-iteration-yields-records", "after the first pass (%d records, %s) a second "
                            "iteration of the same reader yielded %d more record(s): %r"
                            % (len(out), "raised %r" % (exc,) if exc else "ended", len(again), again[0]))
    return out, exc


def _frames(plain):
    """[(start, end, kind)] of complete frames in plaintext + tail offset."""
    frames, tail = refcodec.split_frames(plain)
    out = []
    for s, e, payload in frames:
        try:
            v = refcodec.unpack_exact(payload)
            if isinstance(v, bytes):
                kind = "HEADER"
            else:
                sub, _ = refcodec.decode_ext14(v)
                kind = {1: "REC", 2: "DESC", 0x12: "REC"}.get(sub, "OTHER")
        except refcodec.FormatError:
            kind = "BAD"
        out.append((s, e, kind))
    return out, tail


def _inflate_prefix(data):
    """Independent recovery of the plaintext of a (possibly truncated) gzip file of one or more members."""
    out = b""
    rest = data
    while rest:
        d = zlib.decompressobj(31)
        try:
            out += d.decompress(rest)
        except zlib.error:
            # damaged header/body: recover incrementally what precedes the damage
            d = zlib.decompressobj(31)
            for i in range(len(rest)):
                try:
                    out += d.decompress(rest[i : i + 1])
                except zlib.error:
                    break
            return out
        if not d.eof:
            return out  # the member is cut: what could be inflated has been
        rest = d.unused_data
    return out


def _expect_and_compare(obs_full, plain, got, exc, where, boundary_must_be_clean):
    frames, tail = _frames(plain)
    if any(k == "BAD" for _, _, k in frames):
        raise RuntimeError("harness: undamaged prefix contains an undecodable frame")
    n = sum(1 for _, _, k in frames if k == "REC")
    inside = None
    if tail != len(plain) or not frames:
        inside = "partial"
    if len(got) > n:
        raise Violation(where + "/yielded-more", "complete record frames: %d, reader yielded %d" % (n, len(got)))
    if len(got) < n:
        raise Violation(
            where + "/yielded-fewer",
            "complete record frames: %d, reader yielded %d then %s" % (n, len(got), "raised %r" % (exc,) if exc else "ended"),
        )
    for i, r in enumerate(got):
        o = observe(r)
        if o != obs_full[i]:
            raise Violation(where + "/altered-record", "record %d altered: %s" % (i, diff(obs_full[i], o)))
    if boundary_must_be_clean and inside is None and frames and exc is not None:
        raise Violation(where + "/raised-at-frame-boundary", "stream ends at a frame boundary but reader raised %r" % (exc,))
    return inside is not None


def _build(case, ctx):
    built = impl(lambda: [gen.build_any_record(m) for m in case["seq"]])
    if not built.ok:
        ctx.cls("discarded:constructor-raised:" + built.type)
        return None, None
    records = built.value
    return records, [observe(r) for r in records]


def check_truncate(kind):
    def check(case, ctx):
        from flow.record import RecordReader, RecordStreamReader

        records, obs_full = _build(case, ctx)
        if records is None:
            return
        fp = Keep()
        k2 = case.get("second_session_at")
        wrap_ = "gz" if kind == "gz" else "stream"
        if k2 is None:
            exc = _write_all(records, case["flush"], fp, wrap_)
        else:
            ctx.cls("two-writer-sessions-on-one-file")
            exc = _write_all(records[:k2], case["flush"][:k2], fp, wrap_) or _write_all(records[k2:], case["flush"][k2:], fp, wrap_)
        if exc is not None:
            raise Violation(kind + "/write-raised", "undamaged write raised %r" % (exc,))
        data = fp.getvalue()
        ctx.cls("stream-bytes:%s" % ("<200" if len(data) < 200 else "<1000" if len(data) < 1000 else ">=1000"))
        full_plain = data if kind == "raw" else gzip.decompress(data)
        full_frames, _ = _frames(full_plain)
        boundaries = {e for _, e, _ in full_frames}
        sampled = {s % (len(data) + 1) for s in case["sample"]} | {len(data), 0}
        if kind == "raw":
            sampled |= boundaries | {b - 1 for b in boundaries} | {b + 1 for b in boundaries if b < len(data)}
        d = None
        if len(data) <= 3000:
            cuts = range(len(data) + 1)
            ctx.cls("cuts:all-offsets")
        else:
            # a large stream (64 kB boundary strings): boundaries +-1, sampled offsets and a 300-point grid
            cuts = sorted(sampled | set(range(0, len(data) + 1, max(1, len(data) // 300))))
            ctx.cls("cuts:grid(large-stream)")
        for cut in cuts:
            trunc = data[:cut]
            plain = trunc if kind == "raw" else _inflate_prefix(trunc)
            if kind == "raw":
                got, exc = _read_prefix(lambda: RecordStreamReader(io.BytesIO(trunc)))
            else:
                got, exc = _read_prefix(lambda: RecordReader(fileobj=io.BytesIO(trunc)))
            ctx.count(1)
            inside = _expect_and_compare(obs_full, plain, got, exc, kind + "/cut", kind == "raw")
            if inside and cut >= 19:
                ctx.nontriv(cut)
            if cut in sampled:
                # the path-based reader and the file-object based reader must agree with the oracle too
                if d is None:
                    d = ctx.fresh_dir()
                p = os.path.join(d, "t.records" + (".gz" if kind == "gz" else ""))
                with open(p, "wb") as f:
                    f.write(trunc)

                def _open_path():
                    return RecordReader(p)

                got2, exc2 = _read_prefix(_open_path)
                ctx.count(1)
                _expect_and_compare(obs_full, plain, got2, exc2, kind + "/cut/path-reader", kind == "raw")
                if kind == "raw":
                    got3, exc3 = _read_prefix(lambda: RecordReader(fileobj=io.BytesIO(trunc)))
                    ctx.count(1)
                    _expect_and_compare(obs_full, plain, got3, exc3, kind + "/cut/fileobj-reader", cut >= 19)
        if d:
            shutil.rmtree(d, ignore_errors=True)
        ctx.cls("cuts-enumerated")

    return check


def check_truncate_codec(case, ctx):
    """bz2 / lz4 / zstd: how much plaintext a truncated file still yields is codec specific, so the oracle is the
    weaker half of the statement: whatever is yielded is an unmodified, in-order PREFIX of the records written, and
    the complete file yields all of them without error."""
    from flow.record import RecordReader, RecordWriter

    records, obs_full = _build(case, ctx)
    if records is None:
        return
    codec = case["codec"]
    tmp = ctx.fresh_dir()
    try:
        p = os.path.join(tmp, "s.records." + codec)
        w = RecordWriter(p)
        for r, fl in zip(records, case["flush"]):
            w.write(r)
            if fl:
                w.flush()
        w.flush()
        w.close()
        data = open(p, "rb").read()
        ctx.cls("codec:" + codec)
        cuts = range(len(data) + 1) if len(data) <= 1500 else sorted(set(range(0, len(data) + 1, max(1, len(data) // 200))) | {len(data)})
        for cut in cuts:
            trunc = data[:cut]
            got, exc = _read_prefix(lambda: RecordReader(fileobj=io.BytesIO(trunc)))
            ctx.count(1)
            if cut < len(data):
                ctx.nontriv(cut)
            if len(got) > len(obs_full):
                raise Violation("%s/cut/yielded-more" % codec, "cut %d of %d: %d records yielded, %d written" % (cut, len(data), len(got), len(obs_full)))
            for i, r in enumerate(got):
                if observe(r) != obs_full[i]:
                    raise Violation("%s/cut/altered-record" % codec, "cut %d: record %d altered: %s" % (cut, i, diff(obs_full[i], observe(r))))
            if cut == len(data) and (exc is not None or len(got) != len(obs_full)):
                raise Violation("%s/complete-file" % codec, "complete file: %d of %d records, exception %r" % (len(got), len(obs_full), exc))
    finally:
        shutil.rmtree(tmp, ignore_errors=True)


@st.composite
def codec_stream_spec(draw):
    c = draw(stream_spec())
    c["codec"] = draw(st.sampled_from(["bz2", "lz4", "zst"]))
    return c


def check_write_fault(case, ctx):
    from flow.record import RecordReader, RecordStreamReader

    records, obs_full = _build(case, ctx)
    if records is None:
        return
    for wrap in ("stream", "adapter", "gz"):
        dry = FaultyFile()
        exc = _write_all(records, case["flush"], dry, wrap)
        if exc is not None:
            raise Violation("fault/%s/write-raised-without-fault" % wrap, "%r" % (exc,))
        sizes = list(dry.calls)
        if sum(sizes) > 20000:
            ctx.cls("fault:skipped-large-stream")
            continue
        ctx.cls("write-calls:%s" % ("<10" if len(sizes) < 10 else "<30" if len(sizes) < 30 else ">=30"))
        for k, ln in enumerate(sizes):
            for j in sorted({0, 1, ln // 2, ln - 1}):
                if j < 0 or j >= ln:
                    continue
                ff = FaultyFile(fail_at=k, keep=j)
                exc = _write_all(records, case["flush"], ff, wrap)
                if exc is None:
                    raise Violation("fault/%s/error-swallowed" % wrap,
                                    "write call %d failed after %d bytes but the writer reported no error" % (k, j))
                disk = ff.getvalue()
                if wrap == "gz":
                    plain = _inflate_prefix(disk)
                    got, rexc = _read_prefix(lambda: RecordReader(fileobj=io.BytesIO(disk)))
                else:
                    plain = disk
                    got, rexc = _read_prefix(lambda: RecordStreamReader(io.BytesIO(disk)))
                ctx.count(1)
                inside = _expect_and_compare(obs_full, plain, got, rexc, "fault/" + wrap, False)
                if inside:
                    ctx.nontriv((wrap, k, j))
    ctx.cls("faults-enumerated")


def check_transient_fault(case, ctx):
    """One write call on the file object raises without storing anything (ENOSPC-style) and the device recovers; the
    caller catches the error of that write() and keeps writing.  Judged only when the fault left the file at a frame
    boundary (otherwise the caller continued after a torn frame, which nothing promises to survive): what is read
    back is then an in-order prefix of the records whose write() RETURNED - a record whose write() raised was not
    written and must not be yielded - and all of them when the reader ends without an error."""
    from flow.record import RecordStreamReader, RecordStreamWriter
    from flow.record.adapter.stream import StreamWriter

    records, obs_full = _build(case, ctx)
    if records is None or not records:
        return
    for wrap in ("stream", "adapter"):
        dry = FaultyFile()
        if _write_all(records, case["flush"], dry, wrap) is not None:
            return
        ncalls = len(dry.calls)
        if sum(dry.calls) > 20000:
            ctx.cls("transient:skipped-large-stream")
            continue
        for k in range(ncalls):
            ff = FaultyFile(fail_at=k, keep=0, transient=True)
            writer = RecordStreamWriter(ff) if wrap == "stream" else StreamWriter(ff)
            ok = []
            swallowed = None
            for r, fl in zip(records, case["flush"]):
                fired_before = ff.fault_offset is not None
                res = impl(writer.write, r)
                ok.append(res.ok)
                if res.ok and not fired_before and ff.fault_offset is not None:
                    swallowed = len(ok) - 1  # the file object's write raised inside this write(), which returned normally
                if not res.ok and not isinstance(res.exc, OSError):
                    raise Violation("transient/%s/write-raised-other" % wrap, "write raised %r" % (res,))
                if fl:
                    impl(writer.flush)
            impl(writer.flush)
            try:
                writer.close()
            except Exception:
                pass
            ctx.count(1)
            if all(ok) and swallowed is not None:
                # the caller was told that every record is written: then every record must be readable
                ctx.cls("transient:fault-not-reported")
                got, rexc = _read_prefix(lambda: RecordStreamReader(io.BytesIO(ff.getvalue())))
                if [observe(r) for r in got] != obs_full:
                    raise Violation("transient/%s/error-swallowed-records-lost" % wrap, "write call %d on the file object raised "
                                    "inside write() of record %d, which returned normally like every other write(); the file "
                                    "reads back %d of %d records (%r)" % (k, swallowed, len(got), len(obs_full), rexc))
                continue
            if all(ok):
                ctx.cls("transient:fault-outside-record-writes")  # header write / flush
                continue
            disk = ff.getvalue()
            frames, _ = _frames(disk)
            if ff.fault_offset not in ({0} | {e for _, e, _ in frames}):
                good_frames, _ = _frames(disk[: ff.fault_offset - 4]) if ff.fault_offset >= 4 else ([], 0)
                ends = {0} | {e for _, e, _ in good_frames}
                if ff.fault_offset - 4 in ends and disk[ff.fault_offset - 4: ff.fault_offset - 3] == b"\x00":
                    # exactly a dangling 4-byte length prefix was left behind and more frames followed it: what the
                    # reader takes for that frame's payload starts with the next length prefix - not an object of
                    # this format.  Everything before the tear is intact; nothing behind it may be handed out as a
                    # record, and nothing that is not a record at all.
                    ctx.cls("transient:dangling-length-prefix")
                    ctx.nontriv((wrap, k, "dangling"))
                    got, rexc = _read_prefix(lambda: RecordStreamReader(io.BytesIO(disk)))
                    from flow.record.base import Record

                    n_before = sum(1 for good in ok[: ok.index(False)] if good)
                    want = [o for o, good in zip(obs_full, ok) if good]
                    if any(not isinstance(x, Record) for x in got):
                        bad = next(x for x in got if not isinstance(x, Record))
                        raise Violation("transient/%s/yielded-non-record" % wrap, "after a dangling length prefix the reader "
                                        "yielded %r (%s) as a record" % (bad, type(bad).__name__))
                    gobs = [observe(r) for r in got]
                    if gobs != want[: len(gobs)] or len(gobs) > n_before:
                        raise Violation("transient/%s/yielded-behind-tear" % wrap, "%d records were complete before the torn "
                                        "frame, the reader yielded %d" % (n_before, len(gobs)))
                    continue
                ctx.cls("transient:torn-frame(not judged)")
                continue
            ctx.cls("transient:fault-at-frame-boundary")
            ctx.nontriv((wrap, k))
            got, rexc = _read_prefix(lambda: RecordStreamReader(io.BytesIO(disk)))
            want = [o for o, good in zip(obs_full, ok) if good]
            gobs = [observe(r) for r in got]
            if gobs != want[: len(gobs)]:
                i = next((i for i, (a, b) in enumerate(zip(gobs, want)) if a != b), min(len(gobs), len(want)))
                refused = [o for o, good in zip(obs_full, ok) if not good]
                kind = "yielded-refused-record" if i < len(gobs) and gobs[i] in refused else "yielded-other"
                raise Violation("transient/%s/%s" % (wrap, kind), "write call %d raised (nothing stored) during record %d; "
                                "reader yielded %d records, position %d is not the next record whose write() returned"
                                % (k, ok.index(False), len(gobs), i))
            if rexc is None and len(gobs) != len(want):
                raise Violation("transient/%s/skipped-complete" % wrap, "reader ended cleanly after %d of %d records whose "
                                "write() returned" % (len(gobs), len(want)))


LARGE = [2**20, 2**24 - 64, 2**24, 2**24 + 1, 2**25 + 5]


def large_cases(tier):
    return [{"size": n, "kind": k} for n in LARGE for k in ("raw", "gz")]


def check_large_frame_cuts(case, ctx):
    """A frame of many megabytes is a complete frame like any other (the length is a 32-bit count): the intact
    stream yields it and the records behind it, a cut behind it still yields it."""
    import datetime as _d

    from flow.record import RecordDescriptor, RecordReader, RecordStreamReader

    n, kind = case["size"], case["kind"]
    g = _d.datetime(2020, 1, 1, tzinfo=_d.timezone.utc)
    desc = RecordDescriptor("t/large", [("bytes", "blob"), ("varint", "i")])
    blob = (b"0123456789abcdef" * (n // 16 + 1))[:n]
    records = [desc(b"small", 0, _generated=g), desc(blob, 1, _generated=g), desc(b"after", 2, _generated=g),
               desc(b"last", 3, _generated=g)]
    obs_full = [observe(r) for r in records]
    fp = Keep()
    exc = _write_all(records, [False] * len(records), fp, "gz" if kind == "gz" else "stream")
    if exc is not None:
        raise Violation(kind + "/large/write-raised", "undamaged write raised %r" % (exc,))
    data = fp.getvalue()
    plain_full = data if kind == "raw" else gzip.decompress(data)
    frames, _ = _frames(plain_full)
    ctx.cls("frame-bytes:%d" % n, "kind:" + kind)
    if kind == "raw":
        ends = [e for _, e, _ in frames]
        cuts = sorted({len(data)} | set(ends) | {e - 1 for e in ends} | {e + 1 for e in ends if e < len(data)}
                      | {ends[2] + 5, ends[2] + n // 2})
    else:
        cuts = sorted({len(data), len(data) - 1, len(data) - 9, len(data) // 2, len(data) * 3 // 4})
    for cut in cuts:
        trunc = data[:cut]
        plain = trunc if kind == "raw" else _inflate_prefix(trunc)
        if kind == "raw":
            got, rexc = _read_prefix(lambda: RecordStreamReader(io.BytesIO(trunc)))
        else:
            got, rexc = _read_prefix(lambda: RecordReader(fileobj=io.BytesIO(trunc)))
        ctx.count(1)
        ctx.nontriv((n, kind, cut))
        _expect_and_compare(obs_full, plain, got, rexc, kind + "/large-frame-cut", kind == "raw")


def parts(tier):
    return [
        Part("truncate-raw", check_truncate("raw"), strategy=stream_spec(), examples=(30, 600), exhaustive=False),
        Part("truncate-gz", check_truncate("gz"), strategy=stream_spec(), examples=(20, 400)),
        Part("write-fault", check_write_fault, strategy=stream_spec(), examples=(16, 300)),
        Part("large-frame-cuts", check_large_frame_cuts, cases=large_cases, exhaustive=True),
        Part("transient-write-fault", check_transient_fault, strategy=stream_spec(), examples=(120, 1500)),
        Part("truncate-bz2-lz4-zstd", check_truncate_codec, strategy=codec_stream_spec(), examples=(6, 150)),
    ]
