"""C01 - Record stream round-trip preserves every record exactly."""
import io
import os

from hypothesis import strategies as st

from vlib import gen
from vlib.observe import diff, observe
from vlib.runner import Part, Violation, impl

LEVEL = "exploration"
RULE = (
    "Hypothesis-generated record sequences (0-8 records over 1-4 generated descriptors, all serialisable "
    "whitelisted field types in scalar and T[] form, nested record/record[] and grouped records) written through "
    "RecordStreamWriter/BytesIO or RecordWriter(path[.gz]) and read back; oracle = equality of deep canonical "
    "observations (class, bits, flavour, offset, order) per record incl. metadata. Non-trivial = sequence with >=1 "
    "record that has >=1 non-None field; distinct by digest of the serialised case."
)
ASSUMPTIONS = [
    "identity is judged by /verif's deep observation (vlib/observe.py), not by Record.__eq__",
    "outside the domain: upper-case digest hex, dictlist with non-str keys or nested containers, sub-second UTC "
    "offsets, net.ipv4.Subnet (no _pack), lone surrogates outside U+DC80-U+DCFF",
]


def value_sig(o_w, o_r):
    """Signature of the first differing slot: field observation kinds."""
    d = diff(o_w, o_r) or ""
    return d.split(":")[0][-80:]


def first_slot_diff(ow, orr):
    """Return (field type, kind written, kind read) of the first differing slot of two record observations."""
    if ow[0] == "record" and orr[0] == "record" and ow[1:3] == orr[1:3]:
        types = dict((n, t) for t, n in ow[2])
        for (k, a), (_, b) in zip(ow[3], orr[3]):
            if a != b:
                return types.get(k, k), a, b
    return None


def _kind_sig(t, a, b):
    def k(o):
        if not isinstance(o, tuple):
            return repr(o)[:20]
        if o[0] in ("ipaddress", "ipnetwork"):
            return "%s-v%s" % (o[0], o[2])
        if o[0] == "path":
            return "path-%s" % o[2]
        if o[0] in ("list", "tuple") and len(o) > 1:
            return "%s-%s" % (o[0], o[1])
        return "%s-%s" % (o[0], o[1] if len(o) > 1 and isinstance(o[1], str) else "")

    t = {"net.IPAddress": "net.ipaddress", "net.IPNetwork": "net.ipnetwork", "wstring": "string"}.get(t, t)
    return "%s/%s->%s" % (t, k(a), k(b))


def slot_sig(ow, orr):
    """Innermost differing field: '<field type>/<kind written>-><kind read>'."""
    sd = first_slot_diff(ow, orr)
    if not sd:
        return "record-shape"
    t, a, b = sd
    if isinstance(a, tuple) and isinstance(b, tuple) and a[0] == b[0] == "list" and a[1] == b[1] and len(a[2]) == len(
        b[2]
    ):
        for x, y in zip(a[2], b[2]):
            if x != y:
                if x[0] == "record" and y[0] == "record":
                    return slot_sig(x, y)
                return _kind_sig(t[:-2] if t.endswith("[]") else t, x, y)
    if isinstance(a, tuple) and isinstance(b, tuple) and a[0] == b[0] == "record":
        return slot_sig(a, b)
    return _kind_sig(t, a, b)


def compare_sequences(written, read, where):
    if len(written) != len(read):
        raise Violation("%s/count" % where, "wrote %d records, read %d" % (len(written), len(read)))
    for i, (w, r) in enumerate(zip(written, read)):
        ow, orr = observe(w), observe(r)
        if ow != orr:
            if ow[0] == "grouped" and orr[0] == "grouped" and len(ow[2]) == len(orr[2]):
                sig = "grouped-name" if ow[1] != orr[1] else next(
                    (slot_sig(a, b) for a, b in zip(ow[2], orr[2]) if a != b), "?"
                )
            else:
                sig = slot_sig(ow, orr)
            raise Violation("%s/%s" % (where, sig), "record %d differs: %s" % (i, diff(ow, orr)))


def roundtrip_bytesio(records):
    from flow.record import RecordStreamReader, RecordStreamWriter

    buf = io.BytesIO()
    keep = io.BytesIO()

    class NoClose(io.BytesIO):
        def close(self):
            keep.write(self.getvalue())
            super().close()

    fp = NoClose()
    w = RecordStreamWriter(fp)
    for r in records:
        w.write(r)
    w.flush()
    data = fp.getvalue()
    w.close()
    del buf
    return data, list(RecordStreamReader(io.BytesIO(data)))


def roundtrip_path(records, path):
    from flow.record import RecordReader, RecordWriter

    w = RecordWriter(path)
    try:
        for r in records:
            w.write(r)
        w.flush()
    finally:
        w.close()
    rd = RecordReader(path)
    try:
        return list(rd)
    finally:
        rd.close()


def check_roundtrip(case, ctx):
    seq, transport = case["seq"], case["transport"]
    built = impl(lambda: [gen.build_any_record(m) for m in seq])
    if not built.ok:
        # A generated input the constructors refuse is a generator problem, not a C01 matter: count it.
        ctx.cls("discarded:constructor-raised:" + built.type)
        return
    records = built.value
    labels = set()
    for m in seq:
        gen.classify_any(m, labels)
    ctx.cls(*labels)
    ctx.cls("transport:" + transport, "len:%d" % min(len(seq), 9))
    if len({(m.p["desc"] if m.kind == "plain" else None) for m in seq}) > 1:
        ctx.cls("multi-descriptor")
    if any(gen.has_nonnone(m) for m in seq):
        ctx.nontriv()
    ign = case.get("ignore")
    if ign:
        # the comparison setting (which fields == and hash() skip) is no business of the stream format
        from flow.record import ignore_fields_for_comparison

        names = [n for m in seq if m.kind == "plain" for _, n in m.p["desc"][1]]
        ignored = ["_generated"] if ign == "generated" or not names else [names[0], "_source"]
        ctx.cls("written-under-ignored-fields:" + ign)
        with ignore_fields_for_comparison(ignored):
            return _roundtrip_and_compare(records, transport, ctx)
    return _roundtrip_and_compare(records, transport, ctx)


def _roundtrip_and_compare(records, transport, ctx):
    if transport == "bytesio":
        res = impl(roundtrip_bytesio, records)
        if not res.ok:
            raise Violation("bytesio/raised/" + res.type, "round trip raised %r" % (res,))
        compare_sequences(records, res.value[1], "stream")
    else:
        d = ctx.fresh_dir()
        path = os.path.join(d, "out.records" + (".gz" if transport == "gz" else ""))
        try:
            res = impl(roundtrip_path, records, path)
        finally:
            import shutil

            shutil.rmtree(d, ignore_errors=True)
        if not res.ok:
            raise Violation("path/raised/" + res.type, "round trip raised %r" % (res,))
        compare_sequences(records, res.value, "stream")


def case_strategy(types=None):
    return st.fixed_dictionaries(
        {
            "seq": gen.sequence_spec(types=types),
            "transport": st.sampled_from(["bytesio", "bytesio", "path", "gz"]),
            "ignore": st.sampled_from([None, None, None, "generated", "first-field"]),
        }
    )


def focused_strategy():
    """One descriptor with one or two fields of a single drawn type: every type gets dense coverage."""

    @st.composite
    def s(draw):
        t = draw(st.sampled_from(gen.ALL_TYPES))
        d = ("t/focus", (((t, "a"),) if draw(st.booleans()) else ((t, "a"), (t, "b"))))
        n = draw(st.integers(1, 3))
        return {
            "seq": [gen.M("plain", draw(gen.record_spec(0, desc=d))) for _ in range(n)],
            "transport": draw(st.sampled_from(["bytesio", "bytesio", "path", "gz"])),
        }

    return s()


def dynamic_path_cases(tier):
    """dynamic is a whitelisted, serialisable type and accepts a path: enumerate that corner separately."""
    import datetime as _d

    g = _d.datetime(2020, 1, 1, tzinfo=_d.timezone.utc)
    out = []
    for flavour, s_, via in (("posix", "/tmp/x", "str"), ("posix", "a/b", "pure"), ("windows", "c:\\x\\y", "from"),
                             ("posix", "", "from"), ("windows", "\\\\host\\share\\f", "pure")):
        for transport in ("bytesio", "path"):
            rec = {"desc": ("t/dyn", (("dynamic", "d"), ("string", "s"))), "vals": [gen.M("path", (flavour, s_, via)), "x"],
                   "src": None, "cls": None, "gen": g}
            if via == "str":
                rec["vals"][0] = gen.M("path", (flavour, s_, "pure"))
            out.append({"seq": [gen.M("plain", rec)], "transport": transport})
    return out


@st.composite
def mutated_list_case(draw):
    t = draw(st.sampled_from([x for x in gen.LIST_TYPES if x not in ("record[]",)]))
    inner = gen.scalar_value(t[:-2])
    return {"type": t, "initial": draw(st.lists(inner, max_size=2)), "extra": draw(st.lists(inner, min_size=1, max_size=3)),
            "how": draw(st.sampled_from(["append", "extend", "iadd", "insert0", "setitem"])),
            "transport": draw(st.sampled_from(["bytesio", "path"]))}


def check_mutated_list(case, ctx):
    """A typed list that was extended in place after the record was created carries raw elements; the stream
    must carry what the list means: reading back gives the record one gets by passing the full list up front."""
    import datetime as _d

    from flow.record import RecordDescriptor

    t, how = case["type"], case["how"]
    g = _d.datetime(2020, 1, 1, tzinfo=_d.timezone.utc)
    desc = RecordDescriptor("t/mut", [(t, "l"), ("string", "s")])
    init = [gen.build_value(v) for v in case["initial"]]
    extra = [gen.build_value(v) for v in case["extra"]]
    built = impl(lambda: desc(list(init), "x", _generated=g))
    if not built.ok:
        ctx.cls("discarded:constructor-raised")
        return
    rec = built.value
    if how == "append":
        for e in extra:
            rec.l.append(e)
        full = init + extra
    elif how == "extend":
        rec.l.extend(extra)
        full = init + extra
    elif how == "iadd":
        lst = rec.l
        lst += extra
        full = init + extra
    elif how == "insert0":
        rec.l.insert(0, extra[0])
        full = [extra[0]] + init
    else:
        if not init:
            rec.l.append(extra[0])
            full = [extra[0]]
        else:
            rec.l[0] = extra[0]
            full = [extra[0]] + init[1:]
    oracle = impl(lambda: desc(list(full), "x", _generated=g))
    if not oracle.ok:
        ctx.cls("discarded:constructor-raised")
        return
    ctx.cls("mutated:" + how, "type:" + t)
    ctx.nontriv()
    if case["transport"] == "bytesio":
        res = impl(roundtrip_bytesio, [rec])
        got = res.value[1] if res.ok else None
    else:
        d = ctx.fresh_dir()
        try:
            res = impl(roundtrip_path, [rec], os.path.join(d, "m.records"))
        finally:
            import shutil

            shutil.rmtree(d, ignore_errors=True)
        got = res.value if res.ok else None
    if not res.ok:
        raise Violation("mutated-list/raised/" + res.type, "%s after %s: round trip raised %r" % (t, how, res), detail=t[:-2])
    compare_sequences([oracle.value], got, "mutated-list")


POISON = "\ud800"  # a lone surrogate: no text field can be serialised with it, the write of that record raises


@st.composite
def refused_write_case(draw):
    seq = draw(gen.sequence_spec(max_len=6, max_desc=3).filter(lambda q: len(q) > 0))
    ins = []
    for _ in range(draw(st.integers(1, 3))):
        j = draw(st.integers(0, len(seq) - 1))
        # mostly in front of the record it was copied from: the refused record is then often the first of its type
        pos = draw(st.integers(0, j)) if draw(st.integers(0, 3)) else draw(st.integers(0, len(seq)))
        ins.append((pos, j))
    return {"seq": seq, "refused": ins, "transport": draw(st.sampled_from(["bytesio", "path", "gz"]))}


def _poisoned(m):
    """A copy of the record model whose _source cannot be serialised (for a grouped record: of its last member)."""
    if m.kind == "plain":
        return gen.M("plain", dict(m.p, src=POISON))
    recs = list(m.p["recs"])
    recs[-1] = _poisoned(recs[-1])
    return gen.M("grp", dict(m.p, recs=recs))


def check_refused_writes(case, ctx):
    """A write() that raises (the record cannot be serialised) is caught by the caller, who keeps writing: the
    stream must read back as exactly the records whose write() returned."""
    from flow.record import RecordReader, RecordStreamReader, RecordStreamWriter, RecordWriter

    seq = [(m, False) for m in case["seq"]]
    for pos, j in sorted(case["refused"], key=lambda x: -x[0]):
        seq.insert(pos, (_poisoned(case["seq"][j]), True))
    built = impl(lambda: [gen.build_any_record(m) for m, _ in seq])
    if not built.ok:
        ctx.cls("discarded:constructor-raised:" + built.type)
        return
    records = built.value
    transport = case["transport"]
    d = None
    if transport == "bytesio":
        fp = io.BytesIO()
        w = RecordStreamWriter(fp)
    else:
        d = ctx.fresh_dir()
        path = os.path.join(d, "out.records" + (".gz" if transport == "gz" else ""))
        w = RecordWriter(path)
    try:
        written = []
        seen = set()
        first_refused = False
        for (m, poison), r in zip(seq, records):
            res = impl(w.write, r)
            key = repr(m.p["desc"]) if m.kind == "plain" else "grp"
            if poison:
                if res.ok:
                    ctx.cls("discarded:unserialisable-record-was-accepted")
                    return
                if key not in seen:
                    first_refused = True
            else:
                if not res.ok:
                    raise Violation("refused-writes/good-write-raised/" + res.type, "write of a serialisable record raised %r "
                                    "after %d refused ones" % (res, sum(1 for (_, p_) in seq if p_)))
                written.append(r)
                seen.add(key)
        w.flush()
        if transport == "bytesio":
            data = fp.getvalue()
            w.close()
            res = impl(lambda: list(RecordStreamReader(io.BytesIO(data))))
        else:
            w.close()

            def rd():
                reader = RecordReader(path)
                try:
                    return list(reader)
                finally:
                    reader.close()

            res = impl(rd)
    finally:
        try:
            w.close()
        except Exception:
            pass
        if d:
            import shutil

            shutil.rmtree(d, ignore_errors=True)
    ctx.cls("transport:" + transport, "refused:%d" % len(case["refused"]),
            "first-of-type-refused" if first_refused else "later-of-type-refused")
    if written and first_refused:
        ctx.nontriv()
    if not res.ok:
        raise Violation("refused-writes/read-raised/" + res.type, "reading back raised %r" % (res,))
    compare_sequences(written, res.value, "refused-writes")


def parts(tier):
    return [
        Part("typedlist-mutated-in-place", check_mutated_list, strategy=mutated_list_case(), examples=(60, 1000)),
        Part("dynamic-holding-path", check_roundtrip, cases=dynamic_path_cases, exhaustive=True),
        Part("roundtrip", check_roundtrip, strategy=case_strategy(), examples=(200, 3000)),
        Part("refused-writes", check_refused_writes, strategy=refused_write_case(), examples=(60, 1500)),
        Part("roundtrip-focused", check_roundtrip, strategy=focused_strategy(), examples=(300, 4000)),
    ]
