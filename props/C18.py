"""C18 - SQLite export keeps every record, independent of batch size."""
import datetime as _d
import math
import os
import shutil
import sqlite3

from hypothesis import strategies as st

from vlib import gen
from vlib.observe import observe
from vlib.runner import Part, Violation, impl

LEVEL = "exploration"
RULE = (
    "Model-based operation sequences (Hypothesis): a SqliteWriter with batch size b in {1..7, 1000}; operations write "
    "(records over SQLite-mappable values: valid-unicode text, 64-bit integers, finite floats, bytes, timestamps, and "
    "other types via their text form; type and field names incl. SQL keywords; same-name descriptors that gain "
    "fields), flush, close. After EVERY step a second sqlite3 connection must see, per table, a prefix of the rows "
    "written, and the total visible count must be an allowed commit point (multiple of b, position where a new "
    "descriptor first appeared, count at a flush) not below the last mandatory one. After close: one table per type "
    "name, one column per field (union over the evolution), rows in write order with equal values, also through "
    "SqliteReader. Metamorphic: the same history under a second batch size gives an identical table dump. "
    "Non-trivial = history with >=2 tables or a descriptor evolution and >=1 batch boundary; distinct by case digest."
)
ASSUMPTIONS = [
    "the observer looks between calls, not during one; atomicity inside a call rests on SQLite's transactions",
    "names that differ only by case are not put in one database (SQLite folds identifier case)",
    "integers beyond 64 bit, NaN/inf and lone surrogates are outside 'SQLite-mappable values'",
]

UTC = _d.timezone.utc
GEN = _d.datetime(2021, 1, 2, 3, 4, 5, 6, tzinfo=UTC)
SQL_WORDS = ["select", "table", "order", "group", "index", "from", "where", "values", "primary", "rowid", "null", "x", "y",
             "data", "Key"]
TYPES = ["string", "varint", "float", "bytes", "datetime", "boolean", "uint32", "filesize", "stringlist", "path",
         "net.ipaddress", "digest", "uri", "varint[]"]


def sql_text():
    return st.text(st.characters(exclude_categories=["Cs"], exclude_characters="\x00"), max_size=12)


def value_of(t):
    if t == "string":
        return st.one_of(st.none(), sql_text(), st.sampled_from(["", "it's", 'say "hi"', "a;b--", "%s", "?"]))
    if t in ("varint", "filesize"):
        base = st.one_of(st.sampled_from([0, 1, -1, 2**63 - 1, -(2**63), 2**31, 2**32]), st.integers(-(2**63), 2**63 - 1))
        return st.one_of(st.none(), base if t == "varint" else base.map(abs).map(lambda v: min(v, 2**63 - 1)))
    if t == "uint32":
        return st.one_of(st.none(), st.integers(0, 2**32 - 1))
    if t == "float":
        return st.one_of(st.none(), st.floats(allow_nan=False, allow_infinity=False), st.sampled_from([0.0, -0.0, 1e308, 5e-324]))
    if t == "bytes":
        return st.one_of(st.none(), st.binary(max_size=12))
    if t == "datetime":
        return st.one_of(st.none(), gen.aware_datetimes())
    if t == "boolean":
        return st.one_of(st.none(), st.booleans())
    if t == "stringlist":
        return st.lists(sql_text(), max_size=3)
    if t == "path":
        return st.one_of(st.none(), gen.posix_path_str().filter(lambda s: all(0xD800 > ord(c) or ord(c) > 0xDFFF for c in s) and "\x00" not in s))
    if t == "net.ipaddress":
        return st.one_of(st.none(), gen.ip_strings())
    if t == "digest":
        return st.one_of(st.none(), gen.digests())
    if t == "uri":
        return st.one_of(st.none(), st.sampled_from(["http://a/b", "x", ""]))
    if t == "varint[]":
        return st.lists(st.integers(-5, 5), max_size=3)
    raise KeyError(t)


@st.composite
def case_strategy(draw):
    ntypes = draw(st.integers(1, 3))
    tnames = draw(st.lists(st.one_of(gen.type_name(), st.sampled_from(["select", "table/order", "a/b", "Group", "sqlite/row", "sqlite3/t", "SQLiteDb", "sqlite"])),
                           min_size=ntypes, max_size=ntypes, unique_by=lambda s: s.lower()))
    versions = []  # (type name, fields)
    for tn in tnames:
        nf = draw(st.integers(1, 4))
        fnames = draw(st.lists(st.one_of(gen.ident(5), st.sampled_from(SQL_WORDS)), min_size=nf, max_size=nf,
                               unique_by=lambda s: s.lower()))
        ftypes = [draw(st.sampled_from(TYPES)) for _ in fnames]
        fields = list(zip(ftypes, fnames))
        versions.append((tn, tuple(fields)))
        if draw(st.integers(0, 2)) == 0:
            extra = draw(st.lists(st.one_of(gen.ident(5), st.sampled_from(SQL_WORDS)), min_size=1, max_size=2,
                                  unique_by=lambda s: s.lower()).filter(
                lambda xs: not ({x.lower() for x in xs} & {f.lower() for f in fnames})))
            efields = [(draw(st.sampled_from(TYPES)), n) for n in extra]
            how = draw(st.sampled_from(["grow", "grow", "replace-last", "replace-first", "only-new"]))
            # the next generation gains fields - and may at the same time have lost some (the table keeps them)
            if how == "grow":
                versions.append((tn, tuple(fields + efields)))
            elif how == "replace-last":
                versions.append((tn, tuple(fields[:-1] + efields)))
            elif how == "replace-first":
                versions.append((tn, tuple(efields + fields[1:])))
            else:
                versions.append((tn, tuple(efields)))
    ops = []
    n = draw(st.integers(1, 18))
    for _ in range(n):
        k = draw(st.integers(0, 9))
        if k == 0:
            ops.append(("flush",))
        elif k == 2 and draw(st.integers(0, 2)) == 0:
            # the session ends and a later one continues on the same database (tables and columns exist already)
            ops.append(("reopen",))
        elif k == 1 and draw(st.booleans()):
            # a record flow.record accepts but sqlite3 cannot bind (lone surrogate, integer beyond 64 bits): its
            # write() raises, the producer carries on
            ops.append(("refuse", draw(st.integers(0, len(versions) - 1))))
        else:
            vi = draw(st.integers(0, len(versions) - 1))
            vals = [draw(value_of(t)) for t, _ in versions[vi][1]]
            ops.append(("write", vi, vals, draw(st.one_of(st.none(), st.sampled_from(["src", "o'k"])))))
    ops.append(("close",))
    return {"versions": versions, "ops": ops, "batch": draw(st.sampled_from([1, 2, 3, 4, 5, 6, 7, 1000])),
            "batch2": draw(st.sampled_from([1, 2, 3, 5, 1000])),
            # the producer re-uses its record objects: after write() returned it assigns other values to the same object
            "reuse_records": draw(st.integers(0, 3)) == 0}


def cell(t, v):
    """Expected SQLite cell for a written field value (flow value v of declared type t)."""
    if v is None:
        return None
    if t == "datetime":
        return v.isoformat()
    if t == "bytes":
        return bytes(v)
    if t == "boolean":
        return ("bool", bool(v))
    if t in ("varint", "filesize", "uint32", "unix_file_mode", "uint16"):
        return int(v)
    if t == "float":
        return float(v)
    return str(v)


def cell_eq(exp, got):
    if isinstance(exp, tuple) and exp[0] == "bool":
        return got in (int(exp[1]), str(exp[1]))
    if isinstance(exp, float):
        return isinstance(got, (float, int)) and got == exp  # SQLite does not keep the sign of zero
    return type(exp) is type(got) and exp == got


def observe_db(path):
    """-> {table: (columns, rows)} seen by a fresh connection."""
    con = sqlite3.connect(path, timeout=1)
    try:
        out = {}
        for (t,) in con.execute("SELECT name FROM sqlite_master WHERE type='table' ORDER BY rowid").fetchall():
            cols = [r[1] for r in con.execute('PRAGMA table_info("%s")' % t.replace('"', '""')).fetchall()]
            rows = con.execute('SELECT * FROM "%s" ORDER BY _rowid_' % t.replace('"', '""')).fetchall()
            out[t] = (cols, rows)
        return out
    finally:
        con.close()


class Abandoned(Exception):
    """The history left the modelled behaviour in a way the statement does not speak about."""


def run_history(case, batch, path, ctx, observe_steps):
    """Apply the history with the given batch size. Returns (records written, dump)."""
    from flow.record import RecordDescriptor
    from flow.record.adapter.sqlite import SqliteWriter

    descs = [RecordDescriptor(n, [tuple(f) for f in fs]) for n, fs in case["versions"]]
    w = SqliteWriter(path, batch_size=batch)
    written = []  # (version index, record)
    seen = set()
    commit_points = {0}
    mandatory = 0
    session_start = 0
    base = "sqlite"
    try:
        for step, op in enumerate(case["ops"]):
            if op[0] == "write":
                _, vi, vals, src = op
                if len(written) % 3 == 2:
                    # records of one type often come from several sources: an equal descriptor OBJECT created anew
                    n_, fs_ = case["versions"][vi]
                    descs[vi] = RecordDescriptor(n_, [tuple(f) for f in fs_])
                rec = descs[vi](*vals, _source=src, _generated=GEN)
                if vi not in seen:
                    seen.add(vi)
                    commit_points.add(len(written))
                res = impl(w.write, rec)
                if not res.ok:
                    raise Violation(base + "/write-raised", "step %d: write of %r raised %r" % (step, rec, res), detail=res.type)
                if case.get("reuse_records"):
                    # what write() accepted is what was handed over AT THAT MOMENT: the model keeps an equal record of
                    # its own, the producer's object gets other values right away
                    snap = descs[vi](*vals, _source=src, _generated=GEN)
                    for t_, n_ in case["versions"][vi][1]:
                        impl(setattr, rec, n_, None)
                    impl(setattr, rec, "_source", "reused-after-write")
                    rec = snap
                written.append((vi, rec))
                if (len(written) - session_start) % batch == 0:
                    commit_points.add(len(written))
                    mandatory = len(written)
            elif op[0] == "refuse":
                vi = op[1]
                n_, fs_ = case["versions"][vi]
                pos = next((i for i, (t, _) in enumerate(fs_) if t in ("string", "varint", "uri")), None)
                if pos is None:
                    continue
                vals = [None] * len(fs_)
                vals[pos] = 2**70 if fs_[pos][0] == "varint" else "\ud800"
                rec = descs[vi](*vals, _generated=GEN)
                if vi not in seen:
                    seen.add(vi)
                    commit_points.add(len(written))
                res = impl(w.write, rec)
                if res.ok:
                    # an implementation that defers the refusal (binds at flush time) leaves the model without a
                    # statement about this record: the history is abandoned, counted, and neither passes nor fails
                    raise Abandoned("write-accepted-an-unbindable-value")
                ctx.cls("write-raised-and-producer-continued")
            elif op[0] == "reopen":
                res = impl(w.close)
                if not res.ok:
                    raise Violation(base + "/close-raised", "%r" % (res,))
                commit_points.add(len(written))
                mandatory = len(written)
                w = SqliteWriter(path, batch_size=batch)
                seen = set()
                # the writer counts its own records: batches of the new session start at its first record
                session_start = len(written)
                ctx.cls("second-session-on-the-same-database")
            elif op[0] == "flush":
                res = impl(w.flush)
                if not res.ok:
                    raise Violation(base + "/flush-raised", "%r" % (res,))
                commit_points.add(len(written))
                mandatory = len(written)
            else:
                res = impl(w.close)
                if not res.ok:
                    raise Violation(base + "/close-raised", "%r" % (res,))
                commit_points.add(len(written))
                mandatory = len(written)
            if observe_steps:
                seen_db = impl(observe_db, path)
                if not seen_db.ok:
                    raise Violation(base + "/observer-failed", "step %d (%s): second connection raised %r" % (step, op[0], seen_db),
                                    detail=seen_db.type)
                visible = sum(len(rows) for _, rows in seen_db.value.values())
                ctx.count(1)
                if visible not in commit_points or visible < mandatory:
                    what = "uncommitted-after-boundary" if visible < mandatory else "partial-batch-visible"
                    raise Violation("%s/%s" % (base, what),
                                    "step %d (%s), batch %d: %d records written, another connection sees %d; commit points %r, "
                                    "mandatory >= %d" % (step, op[0], batch, len(written), visible, sorted(commit_points), mandatory))
                check_rows(case, written[:visible], seen_db.value, "step %d" % step, strict_tables=False)
    finally:
        try:
            w.close()
        except Exception:
            pass
    return written


def refused_versions(case):
    """Versions of which an unbindable record is offered: their table / columns may exist without a row of theirs."""
    out = []
    for o in case["ops"]:
        if o[0] == "refuse" and any(t in ("string", "varint", "uri") for t, _ in case["versions"][o[1]][1]):
            out.append(o[1])
    return out


def check_rows(case, written, db, where, strict_tables):
    versions = case["versions"]
    refused = refused_versions(case)
    per_table = {}
    for vi, rec in written:
        per_table.setdefault(versions[vi][0], []).append((vi, rec))
    if strict_tables:
        exp_tables = []
        for tn, _ in versions:
            pass
        used = []
        for vi, _ in written:
            if versions[vi][0] not in used:
                used.append(versions[vi][0])
        maybe = {versions[vi][0] for vi in refused}
        if not (set(used) <= set(db.keys()) <= set(used) | maybe):
            raise Violation("sqlite/tables", "%s: tables %r, expected %r" % (where, sorted(db.keys()), sorted(used)))
    for tn, items in per_table.items():
        if tn not in db:
            raise Violation("sqlite/table-missing", "%s: table %r missing" % (where, tn))
        cols, rows = db[tn]
        if len(rows) != len(items):
            raise Violation("sqlite/not-a-prefix", "%s: table %r has %d rows, expected the first %d" % (where, tn, len(rows), len(items)))
        if strict_tables:
            union = []
            for vi, _ in items:
                for _, n in versions[vi][1]:
                    if n not in union:
                        union.append(n)
            exp_cols = set(union) | {"_source", "_classification", "_generated", "_version"}
            extra_ok = {n for vi in refused if versions[vi][0] == tn for _, n in versions[vi][1]}
            if not (exp_cols <= set(cols) <= exp_cols | extra_ok) or len(cols) != len(set(cols)):
                raise Violation("sqlite/columns", "%s: table %r columns %r, expected %r" % (where, tn, cols, sorted(exp_cols)))
        for k, ((vi, rec), row) in enumerate(zip(items, rows)):
            rowd = dict(zip(cols, row))
            for t, n in versions[vi][1]:
                exp = cell(t, getattr(rec, n))
                if n not in rowd:
                    raise Violation("sqlite/column-missing", "%s: column %r missing in %r" % (where, n, tn))
                if not cell_eq(exp, rowd[n]):
                    raise Violation("sqlite/cell", "%s: table %r row %d column %r (%s): stored %r, written %r (expected cell %r)"
                                    % (where, tn, k, n, t, rowd[n], getattr(rec, n), exp), detail=t)
            for n in set(cols) - {x for _, x in versions[vi][1]} - {"_source", "_classification", "_generated", "_version"}:
                if rowd[n] is not None:
                    raise Violation("sqlite/foreign-column-not-null", "%s: row %d of %r has %r=%r" % (where, k, tn, n, rowd[n]))
            if rowd.get("_source") != (None if rec._source is None else str(rec._source)) or rowd.get("_generated") != GEN.isoformat():
                raise Violation("sqlite/metadata", "%s: row %d metadata %r" % (where, k, {x: rowd.get(x) for x in ("_source", "_generated")}))


def check(case, ctx):
    from flow.record.adapter.sqlite import SqliteReader

    tmp = ctx.fresh_dir()
    try:
        p1 = os.path.join(tmp, "a.db")
        batch = case["batch"]
        nwrites = sum(1 for o in case["ops"] if o[0] == "write")
        tables = {case["versions"][o[1]][0] for o in case["ops"] if o[0] == "write"}
        evol = len({o[1] for o in case["ops"] if o[0] == "write"}) > len(tables)
        ctx.cls("batch:%d" % batch, "tables:%d" % len(tables), "evolution:%s" % evol)
        if (len(tables) >= 2 or evol) and nwrites >= batch:
            ctx.nontriv()
        try:
            written = run_history(case, batch, p1, ctx, True)
        except Abandoned as a:
            ctx.cls("abandoned:%s" % a)
            return
        db = observe_db(p1)
        check_rows(case, written, db, "after close", strict_tables=True)
        # through SqliteReader
        def rd():
            r = SqliteReader(p1)
            try:
                return list(r)
            finally:
                r.con.close()

        got = impl(rd)
        if not got.ok:
            raise Violation("sqlite-reader/raised", "SqliteReader raised %r" % (got,), detail=got.type)
        by_table = {}
        for r in got.value:
            by_table.setdefault(r._desc.name, []).append(r)
        exp_by = {}
        for vi, rec in written:
            exp_by.setdefault(case["versions"][vi][0], []).append((vi, rec))
        if {k: len(v) for k, v in by_table.items()} != {k: len(v) for k, v in exp_by.items()}:
            raise Violation("sqlite-reader/count", "read %r, written %r" % ({k: len(v) for k, v in by_table.items()},
                                                                         {k: len(v) for k, v in exp_by.items()}))
        for tn, items in exp_by.items():
            for (vi, rec), back in zip(items, by_table[tn]):
                for t, n in case["versions"][vi][1]:
                    a, b = getattr(rec, n), getattr(back, n)
                    if t in ("string", "uri"):
                        ok = (a is None and b is None) or (b is not None and str(a) == str(b) and a is not None)
                    elif t in ("varint", "filesize", "uint32"):
                        ok = (a is None and b is None) or (b is not None and a is not None and int(a) == int(b))
                    elif t == "float":
                        ok = (a is None and b is None) or (b is not None and a is not None and float(a) == float(b))
                    elif t == "bytes":
                        ok = (a is None and b is None) or (a is not None and b is not None and bytes(a) == bytes(b))
                    elif t == "datetime":
                        ok = (a is None and b is None) or (a is not None and b is not None and observe(a)[1:] == observe(b)[1:])
                    elif t == "boolean":
                        ok = (a is None and b is None) or (a is not None and b is not None and str(b) in (str(int(bool(a))), str(bool(a))))
                    else:
                        ok = (a is None and b is None) or (b is not None and str(b) == str(a))
                    if not ok:
                        raise Violation("sqlite-reader/value", "table %r field %s (%s): written %r read %r" % (tn, n, t, a, b), detail=t)
        # metamorphic: other batch size, identical dump
        if case["batch2"] != batch:
            p2 = os.path.join(tmp, "b.db")
            try:
                run_history(case, case["batch2"], p2, ctx, False)
            except Abandoned as a:
                ctx.cls("abandoned:%s" % a)
                return

            def dump(p):
                con = sqlite3.connect(p)
                try:
                    return "\n".join(con.iterdump())
                finally:
                    con.close()

            d1, d2 = dump(p1), dump(p2)
            if d1 != d2:
                raise Violation("sqlite/batch-size-dependent", "dumps differ between batch sizes %d and %d" % (batch, case["batch2"]))
    finally:
        shutil.rmtree(tmp, ignore_errors=True)


def float_cases(tier):
    return [{"block": b, "batch": bs} for b in range(8 if tier != "thorough" else 64) for bs in (1, 1000)][: (8 if tier != "thorough" else 128)]


def check_float_exactness(case, ctx):
    """'Finite floats read back with the same values': 3000 doubles of every magnitude (bit patterns derived from the
    block number) are stored as the IEEE value they are - bit for bit, seen through an independent connection and
    through the reader."""
    import hashlib
    import struct

    from flow.record import RecordDescriptor
    from flow.record.adapter.sqlite import SqliteReader, SqliteWriter

    vals = []
    i = 0
    while len(vals) < 3000:
        h = hashlib.sha256(b"c18-float-%d-%d" % (case["block"], i)).digest()
        i += 1
        for k in range(0, 32, 8):
            x = struct.unpack(">d", h[k:k + 8])[0]
            if x == x and x not in (float("inf"), float("-inf")) and x != 0.0:
                vals.append(x)
    ctx.nontriv()
    ctx.count(len(vals))
    desc = RecordDescriptor("c18/floats", [("float", "x"), ("varint", "i")])
    tmp = ctx.fresh_dir()
    try:
        p = os.path.join(tmp, "f.db")
        w = SqliteWriter(p, batch_size=case["batch"])
        for k, x in enumerate(vals):
            w.write(desc(x, k, _generated=GEN))
        w.flush()
        w.close()
        con = sqlite3.connect(p)
        try:
            rows = con.execute('SELECT x, i, typeof(x) FROM "c18/floats" ORDER BY i').fetchall()
        finally:
            con.close()
        if len(rows) != len(vals):
            raise Violation("sqlite/float/rows", "%d floats written, %d rows" % (len(vals), len(rows)))
        for (got, k, ty), x in zip(rows, vals):
            if ty != "real" or struct.pack(">d", got) != struct.pack(">d", x):
                raise Violation("sqlite/float/value", "float %r (%s) is stored as %r (%s, type %s)"
                                % (x, x.hex(), got, got.hex() if isinstance(got, float) else "-", ty))
        rd = SqliteReader(p)
        try:
            back = [float(r.x) for r in rd]
        finally:
            rd.con.close()
        if [struct.pack(">d", b) for b in back] != [struct.pack(">d", x) for x in vals]:
            k = next(k for k, (a, b) in enumerate(zip(back, vals)) if struct.pack(">d", a) != struct.pack(">d", b))
            raise Violation("sqlite-reader/float/value", "float %r reads back as %r" % (vals[k], back[k]))
    finally:
        shutil.rmtree(tmp, ignore_errors=True)


def locked_close_cases(tier):
    return [{"n": n, "batch": b} for n, b in ((2, 3), (5, 1000), (4, 4))]


def check_locked_close(case, ctx):
    """'After close everything is committed': another connection holds a read transaction while the writer is closed,
    so the final COMMIT cannot get its lock.  close() may fail - but when it RETURNS, every accepted record is in
    the database (seen by a fresh connection once the reader has gone)."""
    from flow.record import RecordDescriptor
    from flow.record.adapter.sqlite import SqliteWriter

    ctx.nontriv()
    ctx.cls("close-while-a-reader-holds-its-lock", "batch:%d" % case["batch"])
    desc = RecordDescriptor("c18/locked", [("string", "s"), ("varint", "n")])
    tmp = ctx.fresh_dir()
    try:
        p = os.path.join(tmp, "l.db")
        w = SqliteWriter(p, batch_size=case["batch"])
        for i in range(case["n"]):
            w.write(desc("v%d" % i, i, _generated=GEN))
        reader = sqlite3.connect(p)
        reader.execute("BEGIN")
        reader.execute("SELECT count(*) FROM sqlite_master").fetchall()
        first = impl(w.close)
        reader.rollback()
        reader.close()
        closed_ok = first.ok
        if not first.ok:
            ctx.cls("close-raised:" + first.type)
            second = impl(w.close)
            closed_ok = second.ok
            ctx.cls("second-close:%s" % ("ok" if second.ok else second.type))
        if closed_ok:
            con = sqlite3.connect(p)
            try:
                rows = [r[0] for r in con.execute('SELECT n FROM "c18/locked" ORDER BY n')]
            finally:
                con.close()
            if rows != list(range(case["n"])):
                raise Violation("sqlite/close-returned-but-not-committed", "close() returned (%s) with %d accepted records, "
                                "the database holds n = %r" % ("at once" if first.ok else "on the second call", case["n"], rows),
                                detail="first-close" if first.ok else "retried-close")
    finally:
        shutil.rmtree(tmp, ignore_errors=True)


def parts(tier):
    return [Part("close-under-lock", check_locked_close, cases=locked_close_cases, exhaustive=True, shards=3),
            Part("float-exactness", check_float_exactness, cases=float_cases, exhaustive=True),
            Part("histories", check, strategy=case_strategy(), examples=(300, 8000))]
