"""C16 - rdump output is the specified slice of the filtered input."""
import contextlib
import datetime as _d
import io
import logging
import operator
import os
import re
import shutil
import subprocess
import sys

from hypothesis import strategies as st

from vlib import refcodec
from vlib.observe import diff, observe
from vlib.runner import REPO, Part, Violation, impl

LEVEL = "exploration"
RULE = (
    "Generated rdump invocations: inputs of 1-4 files (3 record types, plain/gz) with every placement of a missing "
    "path, a truncated file (generated cut), a garbage file and an empty file among the good ones x skip 0..N+1 x "
    "count absent/0/1..N+1 x selector from a C07/C08-clean sub-grammar (compiled default and -n) x -F x -X x "
    "--record-source / --record-classification x --multi-timestamp x --split + --suffix-length x -w URIs (stream, "
    ".gz, jsonfile, csvfile, line, text) x --mode csv/json/jsonlines/line/line-verbose on captured stdout; run "
    "in-process (rdump.main) and, sampled, as a real subprocess incl. standard input. Oracle: reference pipeline in "
    "/verif - intact prefix per source (frame table from the reference codec) -> reference predicate -> slice -> "
    "metadata overrides -> projection / exclusion -> per-timestamp expansion (C15 model) - rendered through the same "
    "writer; stream/JSON outputs are read back and compared by deep observation. Non-trivial = invocation with >=1 "
    "bad source or a selector/slice that keeps 0 < k < n records; distinct by case digest."
    " Also: gzip sources truncated in the compressed domain, CSV output compared with rows assembled without the repository writer, selection on the often-unset _source field."
)
ASSUMPTIONS = [
    "-c 0 means 'no limit' (pinned by the repository's own tests)",
    "rendering of the expected records uses the repository's writers (their fidelity is C14/C20)",
]

UTC = _d.timezone.utc
GEN = _d.datetime(2022, 2, 2, 2, 2, 2, tzinfo=UTC)

DESCS = {
    "A": ("c16/a", [("string", "s"), ("varint", "n"), ("datetime", "ts1"), ("datetime", "ts2"), ("string", "x")]),
    # a later generation of the SAME record type name with a different field set
    "A2": ("c16/a", [("string", "s"), ("varint", "n"), ("string", "y"), ("datetime", "ts2")]),
    "B": ("c16/b", [("varint", "n"), ("string", "s"), ("boolean", "flag")]),
    "C": ("c16/c", [("string", "other"), ("datetime", "when")]),
}
ALL_FIELDS = ["s", "n", "ts1", "ts2", "x", "y", "flag", "other", "when", "nope"]
OPS = {"==": operator.eq, "<": operator.lt, ">": operator.gt, "<=": operator.le, ">=": operator.ge, "!=": operator.ne}


def dts():
    return st.datetimes(min_value=_d.datetime(2000, 1, 1), max_value=_d.datetime(2030, 1, 1)).map(lambda d: d.replace(tzinfo=UTC))


@st.composite
def rec_spec(draw):
    k = draw(st.sampled_from(["A", "A", "A2", "B", "C"]))
    if k == "A2":
        vals = [draw(st.sampled_from(["a", "b", "c", ""])), draw(st.integers(0, 9)), draw(st.sampled_from(["y1", "y2"])), draw(dts())]
    elif k == "A":
        vals = [draw(st.sampled_from(["a", "b", "c", ""])), draw(st.integers(0, 9)), draw(st.one_of(st.none(), dts())),
                draw(dts()), draw(st.sampled_from(["x1", "x,2", 'q"3', "l\n4"]))]
    elif k == "B":
        vals = [draw(st.integers(0, 9)), draw(st.sampled_from(["a", "b", "zz"])), draw(st.booleans())]
    else:
        vals = [draw(st.sampled_from(["o1", "o2"])), draw(dts())]
    return {"k": k, "vals": vals, "src": draw(st.sampled_from([None, "orig"])), "cls": draw(st.sampled_from([None, "secret"]))}


@st.composite
def selector_spec(draw):
    n = draw(st.integers(0, 3))
    clauses = []
    for _ in range(n):
        kind = draw(st.sampled_from(["n", "n", "s", "name", "in", "flag", "src"]))
        if kind == "n":
            clauses.append(("n", draw(st.sampled_from(list(OPS))), draw(st.integers(0, 9))))
        elif kind == "s":
            clauses.append(("s", draw(st.sampled_from(["==", "!="])), draw(st.sampled_from(["a", "b", "zz"]))))
        elif kind == "name":
            clauses.append(("name", "==", draw(st.sampled_from(["c16/a", "c16/b", "c16/c"]))))
        elif kind == "in":
            clauses.append(("n", "in", draw(st.lists(st.integers(0, 9), min_size=1, max_size=4))))
        elif kind == "src":
            # a field every record has and that is often unset (None): membership and (in)equality with None as the value
            op = draw(st.sampled_from(["in", "not in", "==", "!="]))
            lit = draw(st.sampled_from([["orig", "root"], ["root", "admin"], [None, "x"], ["orig"]])) if "in" in op else \
                draw(st.sampled_from(["orig", "root"]))
            clauses.append(("_source", op, lit))
        else:
            clauses.append(("flag", "==", draw(st.booleans())))
    joins = [draw(st.sampled_from(["and", "or"])) for _ in range(max(0, n - 1))]
    return {"clauses": clauses, "joins": joins}


def selector_source(sel):
    if not sel["clauses"]:
        return None
    parts_ = []
    for f, op, lit in sel["clauses"]:
        if f == "name":
            parts_.append("(name(r) == %r)" % lit)
        else:
            parts_.append("(r.%s %s %r)" % (f, op, lit))
    src = parts_[0]
    for j, p in zip(sel["joins"], parts_[1:]):
        src = "(%s %s %s)" % (src, j, p)
    return src


def selector_ref(sel, rec):
    if not sel["clauses"]:
        return True

    def clause(c):
        f, op, lit = c
        if f == "name":
            return rec._desc.name == lit
        if f != "_source" and f not in [n for _, n in rec._desc.get_field_tuples()]:
            return False
        v = getattr(rec, f)
        if op == "in":
            return v in lit
        if op == "not in":
            return v not in lit
        if v is None:
            return {"==": False, "!=": True}.get(op, False)
        return OPS[op](v, lit)

    val = clause(sel["clauses"][0])
    for j, c in zip(sel["joins"], sel["clauses"][1:]):
        val = (val and clause(c)) if j == "and" else (val or clause(c))
    return bool(val)


@st.composite
def case_strategy(draw):
    nfiles = draw(st.integers(1, 4))
    sources = []
    for _ in range(nfiles):
        kind = draw(st.sampled_from(["good", "good", "good", "good.gz", "missing", "truncated", "garbage", "empty",
                                     "damaged-exttype", "damaged-subtype", "joined", "truncated.gz"]))
        recs = [draw(rec_spec()) for _ in range(draw(st.integers(0, 5)))] if kind not in ("missing", "garbage", "empty") else []
        sources.append({"kind": kind, "recs": recs, "cut": draw(st.integers(0, 10**6)),
                        "garbage": draw(st.binary(min_size=1, max_size=30)) if kind == "garbage" else b""})
    total = sum(len(s["recs"]) for s in sources)
    out = draw(st.sampled_from(["stream", "stream", "stream.gz", "jsonfile", "csvfile", "line", "text",
                                "mode:csv", "mode:json", "mode:jsonlines", "mode:line", "mode:line-verbose", "mode:text"]))
    return {
        "sources": sources,
        "selector": draw(selector_spec()),
        "skip": draw(st.one_of(st.just(0), st.just(0), st.integers(0, total + 1))),
        "count": draw(st.one_of(st.none(), st.none(), st.integers(0, total + 1))),
        "fields": draw(st.one_of(st.none(), st.none(), st.lists(st.sampled_from(ALL_FIELDS), min_size=1, max_size=3, unique=True))),
        "exclude": draw(st.one_of(st.none(), st.none(), st.lists(st.sampled_from(ALL_FIELDS), min_size=1, max_size=2, unique=True))),
        "rsource": draw(st.sampled_from([None, None, "overridden", ""])),
        "rclass": draw(st.sampled_from([None, None, "TLP:RED"])),
        "multi_ts": draw(st.sampled_from([False, False, False, True])),
        "split": draw(st.sampled_from([None, None, None, 1, 2, 3])),
        "suffix": draw(st.integers(1, 3)),
        "no_compile": draw(st.booleans()),
        "out": out,
        # the same source may be named more than once (rdump a b a): it is read each time
        "repeats": draw(st.lists(st.tuples(st.integers(0, 5), st.integers(0, nfiles - 1)), max_size=2)) if draw(st.integers(0, 3)) == 0 else [],
    }


def build_rec(spec):
    from flow.record import RecordDescriptor

    name, fields = DESCS[spec["k"]]
    d = RecordDescriptor(name, fields)
    return d(*spec["vals"], _source=spec["src"], _classification=spec["cls"], _generated=GEN)


def make_sources(case, tmp):
    """Write the input files. Returns (argv paths, expected intact records per source)."""
    from flow.record import RecordWriter

    paths, expected = [], []
    for i, s in enumerate(case["sources"]):
        kind = s["kind"]
        p = os.path.join(tmp, "in%d.records%s" % (i, ".gz" if kind in ("good.gz", "truncated.gz") else ""))
        recs = [build_rec(r) for r in s["recs"]]
        if kind == "missing":
            paths.append(os.path.join(tmp, "does-not-exist-%d.records" % i))
            expected.append([])
            continue
        if kind == "garbage":
            with open(p, "wb") as f:
                f.write(s["garbage"].replace(b"RECORDSTREAM\n", b"recordstream\n"))
            paths.append(p)
            expected.append([])
            continue
        if kind == "empty":
            open(p, "wb").close()
            paths.append(p)
            expected.append([])
            continue
        if kind == "joined":
            # two complete record streams in one file (cat a.records b.records): a good source like any other
            half = len(recs) // 2
            blobs = []
            for part in (recs[:half], recs[half:]):
                q = p + ".part"
                w = RecordWriter(q)
                for r in part:
                    w.write(r)
                w.flush()
                w.close()
                blobs.append(open(q, "rb").read())
                os.unlink(q)
            with open(p, "wb") as f:
                f.write(b"".join(blobs))
            paths.append(p)
            expected.append(recs)
            continue
        w = RecordWriter(p)
        for r in recs:
            w.write(r)
        w.flush()
        w.close()
        if kind == "truncated":
            data = open(p, "rb").read()
            cut = s["cut"] % (len(data) + 1)
            with open(p, "wb") as f:
                f.write(data[:cut])
            frames, _ = refcodec.split_frames(data[:cut])
            n = 0
            for _, _, payload in frames:
                try:
                    v = refcodec.unpack_exact(payload)
                    if not isinstance(v, bytes) and refcodec.decode_ext14(v)[0] == refcodec.T_RECORD:
                        n += 1
                except refcodec.FormatError:
                    pass
            recs = recs[:n]
        if kind == "truncated.gz":
            # cut in the COMPRESSED domain: what a standard inflater still recovers decides the intact prefix
            from props.C04 import _inflate_prefix

            data = open(p, "rb").read()
            cut = s["cut"] % (len(data) + 1)
            # (aim at the interesting region half of the time: the last bytes of the compressed file)
            if s["cut"] % 2 and len(data) > 12:
                cut = len(data) - 1 - (s["cut"] // 2) % 12
            with open(p, "wb") as f:
                f.write(data[:cut])
            frames, _ = refcodec.split_frames(_inflate_prefix(data[:cut]))
            n = 0
            for _, _, payload in frames:
                try:
                    v = refcodec.unpack_exact(payload)
                    if not isinstance(v, bytes) and refcodec.decode_ext14(v)[0] == refcodec.T_RECORD:
                        n += 1
                except refcodec.FormatError:
                    pass
            recs = recs[:n]
        if kind.startswith("damaged") and recs:
            # a well-formed frame that is not a flow.record object: the type byte of one record frame's msgpack
            # extension (or the object subtype inside it) is overwritten; everything before that frame is intact
            data = bytearray(open(p, "rb").read())
            frames, _ = refcodec.split_frames(bytes(data))
            rec_frames = []
            for st_, _, payload in frames:
                try:
                    v = refcodec.unpack_exact(payload)
                    if not isinstance(v, bytes) and refcodec.decode_ext14(v)[0] == refcodec.T_RECORD:
                        rec_frames.append((st_, payload))
                except refcodec.FormatError:
                    pass
            k = s["cut"] % len(rec_frames)
            st_, payload = rec_frames[k]
            hdr = {0xC7: 2, 0xC8: 3, 0xC9: 5}.get(payload[0])
            if hdr is None:
                raise RuntimeError("harness: record frame does not start with an ext8/16/32 header: %r" % payload[:4])
            off = st_ + 4 + hdr  # position of the ext type byte; the packed [subtype, value] array follows it
            if kind == "damaged-exttype":
                data[off] = 0x55
            else:
                if data[off + 1] != 0x92:
                    raise RuntimeError("harness: ext payload is not a 2-array: %r" % bytes(data[off + 1: off + 4]))
                data[off + 2] = 0x7F
            with open(p, "wb") as f:
                f.write(bytes(data))
            recs = recs[:k]
        paths.append(p)
        expected.append(recs)
    originals = list(zip(paths, expected))
    pairs = list(originals)
    for pos, idx in case.get("repeats", []):
        src = originals[idx % len(originals)]
        pairs.insert(min(pos, len(pairs)), (src[0], list(src[1])))
    paths, expected = [p_ for p_, _ in pairs], [e for _, e in pairs]
    return paths, expected


def project(rec, fields, exclude):
    """C15 model of RecordFieldRewriter."""
    from flow.record import RecordDescriptor

    if not fields and not exclude:
        return rec
    exclude = exclude or []
    have = [(t, n) for t, n in rec._desc.get_field_tuples()]
    names = [n for _, n in have]
    types = dict((n, t) for t, n in have)
    if fields:
        keep = [n for n in fields if n in names and n not in exclude]
    else:
        keep = [n for n in names if n not in exclude]
    d = RecordDescriptor(rec._desc.name, [(types[n], n) for n in keep])
    return d(*[getattr(rec, n) for n in keep], _source=rec._source, _classification=rec._classification,
             _generated=rec._generated)


def expand(rec):
    """C15 model of iter_timestamped_records (metadata: see check)."""
    from flow.record import RecordDescriptor

    dt = [n for t, n in rec._desc.get_field_tuples() if t == "datetime"]
    if not dt:
        return [rec]
    out = []
    for fname in dt:
        fields = [("datetime", "ts"), ("string", "ts_description")] + [(t, n) for t, n in rec._desc.get_field_tuples()
                                                                       if n not in ("ts", "ts_description")]
        d = RecordDescriptor(rec._desc.name, fields)
        vals = [getattr(rec, fname), fname] + [getattr(rec, n) for t, n in rec._desc.get_field_tuples() if n not in ("ts", "ts_description")]
        out.append(d(*vals, _source=rec._source, _classification=rec._classification, _generated=rec._generated))
    return out


def reference_output(case, expected_per_source):
    recs = [r for src in expected_per_source for r in src]
    kept = [r for r in recs if selector_ref(case["selector"], r)]
    skip, count = case["skip"], case["count"]
    sliced = kept[skip: (skip + count) if count else None]
    out = []
    for r in sliced:
        if case["rsource"] is not None:
            r._source = case["rsource"]
        if case["rclass"] is not None:
            r._classification = case["rclass"]
        r = project(r, case["fields"], case["exclude"])
        if case["multi_ts"]:
            out.extend(expand(r))
        else:
            out.append(r)
    return out, len(recs), len(kept)


class FakeStdout(io.TextIOWrapper):
    def __init__(self):
        self.raw_buf = io.BytesIO()
        super().__init__(self.raw_buf, encoding="utf-8", errors="surrogateescape", newline="", write_through=True)

    def close(self):
        pass


def obs_no_generated(r):
    o = observe(r)
    if o[0] == "record":
        return o[:3] + (tuple((k, v) for k, v in o[3] if k != "_generated"),)
    return o


def render(records, uri_or_mode, tmp, tag):
    """Render records through the repository's writer for the given target; returns bytes or observations."""
    from flow.record import RecordReader, RecordWriter

    p = os.path.join(tmp, tag)
    kind = uri_or_mode
    if kind in ("stream", "stream.gz", "jsonfile"):
        return [observe(r) for r in records]
    uri = {"csvfile": "csvfile://" + p, "line": "line://" + p, "text": "text://" + p}[kind]
    w = RecordWriter(uri)
    for r in records:
        w.write(r)
    w.flush()
    w.close()
    return open(p, "rb").read()


def run_rdump_inprocess(argv):
    from flow.record.tools import rdump

    fake = FakeStdout()
    old = sys.stdout
    sys.stdout = fake
    try:
        with contextlib.redirect_stderr(io.StringIO()):
            logging.disable(logging.CRITICAL)
            try:
                rdump.main(argv)
            finally:
                logging.disable(logging.NOTSET)
    finally:
        sys.stdout = old
    try:
        fake.flush()
    except Exception:
        pass
    return fake.raw_buf.getvalue()


def check(case, ctx, subprocess_mode=False):
    from flow.record import RecordReader

    tmp = ctx.fresh_dir()
    try:
        paths, per_source = make_sources(case, tmp)
        ref = impl(reference_output, case, per_source)
        if not ref.ok:
            raise RuntimeError("harness: reference pipeline failed: %r" % (ref,))
        expected, n_in, n_kept = ref.value
        out = case["out"]
        bad = sum(1 for s in case["sources"] if s["kind"] in ("missing", "truncated", "garbage", "empty", "damaged-exttype",
                                                              "damaged-subtype", "truncated.gz"))
        ctx.cls("out:" + out, "bad-sources:%d" % bad, "multi-ts:%s" % case["multi_ts"], "split:%s" % bool(case["split"]),
                "no-compile:%s" % case["no_compile"])
        for s in case["sources"]:
            ctx.cls("source:" + s["kind"])
        if {"A", "A2"} <= {r["k"] for s in case["sources"] for r in s["recs"]}:
            ctx.cls("two-generations-of-one-type")
        if bad or 0 < len(expected) < n_in:
            ctx.nontriv()
        argv = list(paths)
        sel = selector_source(case["selector"])
        if sel:
            argv += ["-s", sel]
        if case["no_compile"]:
            argv.append("-n")
        if case["skip"]:
            argv += ["--skip", str(case["skip"])]
        if case["count"] is not None:
            argv += ["-c", str(case["count"])]
        if case["fields"]:
            argv += ["-F", ",".join(case["fields"])]
        if case["exclude"]:
            argv += ["-X", ",".join(case["exclude"])]
        if case["rsource"] is not None:
            argv += ["--record-source", case["rsource"]]
        if case["rclass"] is not None:
            argv += ["--record-classification", case["rclass"]]
        if case["multi_ts"]:
            argv.append("--multi-timestamp")
        outp = None
        split = case["split"] if not out.startswith("mode:") else None
        if out.startswith("mode:"):
            m = out[5:]
            if m != "text":
                argv += ["-m", m]
        else:
            name = {"stream": "out.records", "stream.gz": "out.records.gz", "jsonfile": "out.json", "csvfile": "out.csv",
                    "line": "out.txt", "text": "out.txt"}[out]
            outp = os.path.join(tmp, name)
            pre = {"stream": "", "stream.gz": "", "jsonfile": "", "csvfile": "csvfile://", "line": "line://", "text": "text://"}[out]
            argv += ["-w", pre + outp]
            if split:
                argv += ["--split", str(split), "--suffix-length", str(case["suffix"])]
        base = "rdump/%s" % ("mode" if out.startswith("mode:") else out.split(".")[0])
        if subprocess_mode:
            env = dict(os.environ, PYTHONPATH=REPO)
            stdin_f = None
            if not case.get("repeats") and case["sources"][0]["kind"] in ("good", "good.gz", "truncated", "damaged-exttype",
                                                                          "damaged-subtype", "joined"):
                # the first source arrives on standard input (codec and container are sniffed from the pipe)
                stdin_f = open(paths[0], "rb")
                argv[0] = "-"
                ctx.cls("source:stdin")
            try:
                p = subprocess.run([sys.executable, "-m", "flow.record.tools.rdump"] + argv, stdout=subprocess.PIPE,
                                   stderr=subprocess.PIPE, env=env, timeout=120, stdin=stdin_f or subprocess.DEVNULL)
            finally:
                if stdin_f:
                    stdin_f.close()
            res_ok, stdout = p.returncode == 0, p.stdout
            if not res_ok:
                raise Violation(base + "/subprocess-failed", "rdump %r exited %s: %s" % (argv[len(paths):], p.returncode,
                                                                                     p.stderr[-400:].decode("utf8", "replace")))
        else:
            res = impl(run_rdump_inprocess, argv)
            if not res.ok:
                raise Violation(base + "/raised", "rdump.main(%r) raised %r" % (argv[len(paths):], res), detail=res.type)
            stdout = res.value
        what = "options %r; sources %r" % (argv[len(paths):], [s["kind"] for s in case["sources"]])
        # ---- collect the output
        if out.startswith("mode:"):
            m = out[5:]
            exp_recs = expected
            # --mode passes fields/exclude to the writer as well (same selection)
            from flow.record import RecordWriter

            q = {"csv": "csvfile://", "json": "jsonfile://?indent=2&descriptors=false", "jsonlines": "jsonfile://?descriptors=false",
                 "line": "line://", "line-verbose": "line://?verbose=true", "text": "text://"}[m]
            def rendered(uri):
                fake = FakeStdout()
                old = sys.stdout
                sys.stdout = fake
                try:
                    w = RecordWriter(uri)
                    for r in exp_recs:
                        w.write(r)
                    w.flush()
                    w.close()
                finally:
                    sys.stdout = old
                return fake.raw_buf.getvalue()

            want = rendered(q)
            # rdump may also hand the field selection to the writer itself (then metadata columns are not shown)
            from urllib.parse import urlencode

            qp = {k: v for k, v in (("fields", ",".join(case["fields"] or [])), ("exclude", ",".join(case["exclude"] or []))) if v}
            alt = rendered(q + ("&" if "?" in q else "?") + urlencode(qp)) if qp else want
            if stdout == alt:
                want = alt
            if stdout != want:
                raise Violation(base + "/stdout-differs", "%s: stdout %r, expected %r" % (what, stdout[:300], want[:300]),
                                detail=_why(case, expected, n_kept))
            if m == "csv":
                check_csv_rows(stdout, expected, case, base, what)
            return
        files = [outp]
        if split:
            stem, ext = os.path.basename(outp).rsplit(".", 1)
            rx = re.compile(re.escape(stem) + r"\.(\d+)\." + re.escape(ext) + "$")
            found = sorted((int(rx.match(f).group(1)), f) for f in os.listdir(tmp) if rx.match(f))
            files = [os.path.join(tmp, f) for _, f in found]
            for i, f in found:
                if len(str(i).rjust(case["suffix"], "0")) != len(rx.match(f).group(1)):
                    raise Violation(base + "/suffix-length", "%s: part %s" % (what, f))
        if out in ("stream", "stream.gz", "jsonfile"):
            got = []
            for i, f in enumerate(files):
                if not os.path.exists(f):
                    raise Violation(base + "/no-output", "%s: output file %s missing" % (what, os.path.basename(f)))

                def rd(f=f):
                    r = RecordReader(f)
                    try:
                        return list(r)
                    finally:
                        r.close()

                part = impl(rd)
                if not part.ok:
                    raise Violation(base + "/output-unreadable", "%s: output %s cannot be read: %r"
                                    % (what, os.path.basename(f), part), detail=part.type)
                if split and len(part.value) > split:
                    raise Violation(base + "/split-part-too-large", "%s: part holds %d > %d" % (what, len(part.value), split))
                got.extend(part.value)
            ob = observe
            oa, og = tuple(ob(r) for r in expected), tuple(ob(r) for r in got)
            if out == "jsonfile":
                # JSON returns field values through the JSON mapping; compare the JSON-stable projection
                oa, og = tuple(_jsonview(r, False) for r in expected), tuple(_jsonview(r, False) for r in got)
            if oa != og:
                raise Violation(base + "/records-differ", "%s: %d records expected, %d written; %s"
                                % (what, len(oa), len(og), diff(oa, og)), detail=_why(case, expected, n_kept, got))
        else:
            data = b"".join(open(f, "rb").read() for f in files if os.path.exists(f))
            if split and out in ("csvfile", "line"):
                return  # per-part headers / numbering restart: compared for stream, json and text targets
            want = render(expected, out, tmp, "expected.out")
            if data != want:
                raise Violation(base + "/output-differs", "%s: output %r, expected %r" % (what, data[:300], want[:300]),
                                detail=_why(case, expected, n_kept))
            if out == "csvfile":
                check_csv_rows(data, expected, case, base, what)
    finally:
        shutil.rmtree(tmp, ignore_errors=True)


def check_csv_rows(data, records, case, base, what):
    """CSV output against rows assembled WITHOUT the repository's CSV writer: for every run of records of one type a
    header row with the field names, then one row per record whose cells are the text form of the values (the same
    records come out whatever the writer). Both places where rdump may apply -F / -X are accepted."""
    import csv

    got = [row for row in csv.reader(io.StringIO(data.decode("utf-8", "surrogateescape"), newline="")) if row not in ([], [""])]

    def rows(writer_level):
        out, prev = [], None
        for r in records:
            keys = list(r.__slots__)
            if writer_level:
                if case["fields"]:
                    keys = [k for k in case["fields"] if k in keys]
                keys = [k for k in keys if k not in (case["exclude"] or [])]
            if prev is None or prev != r._desc:
                out.append(list(keys))
                prev = r._desc
            out.append(["" if getattr(r, k) is None else str(getattr(r, k)) for k in keys])
        return [row for row in out if row not in ([], [""])]

    if got != rows(False) and got != rows(True):
        want = rows(False)
        k = next((i for i, (a, b) in enumerate(zip(got, want)) if a != b), min(len(got), len(want)))
        raise Violation(base + "/csv-rows-differ", "%s: a standard CSV parser reads %d rows, %d expected; first difference at row %d: "
                        "%r vs %r" % (what, len(got), len(want), k, got[k:k + 1], want[k:k + 1]))


def _jsonview(r, drop_generated):
    d = [(n, str(getattr(r, n)) if getattr(r, n) is not None else None) for n in r.__slots__ if not (drop_generated and n == "_generated")]
    return (r._desc.name, tuple(tuple(f) for f in r._desc.get_field_tuples()), tuple(d))


def _why(case, expected, n_kept, got=None):
    if got is not None and len(got) != len(expected):
        if any(s["kind"] != "good" and s["kind"] != "good.gz" for s in case["sources"]):
            return "count/bad-source"
        return "count"
    if case["multi_ts"] and (case["rsource"] is not None or case["rclass"] is not None):
        return "multi-timestamp+override"
    if case["multi_ts"]:
        return "multi-timestamp"
    if case["fields"] or case["exclude"]:
        return "projection"
    if case["rsource"] is not None or case["rclass"] is not None:
        return "override"
    return "values"


def check_subprocess(case, ctx):
    return check(case, ctx, subprocess_mode=True)


LARGE_RECORD_SIZES = [2**16 + 7, 2**20 + 100, 2**22 + 1, 2**24 + 100]


def large_cases(tier):
    return [{"size": n, "gz": gz, "opts": o} for n in LARGE_RECORD_SIZES for gz in (False, True)
            for o in ([], ["-n", "-s", "r.n >= 0"], ["--skip", "1"], ["-w-json"])]


def check_large_identity(case, ctx):
    """'With no options it is the identity' has no size clause: a good source holding one record of many megabytes
    contributes that record and the records behind it like any other source."""
    from flow.record import RecordDescriptor, RecordReader, RecordWriter

    n = case["size"]
    ctx.nontriv()
    ctx.cls("record-bytes:%d" % n, "gz:%s" % case["gz"], "opts:%s" % " ".join(case["opts"]))
    desc = RecordDescriptor("c16/large", [("string", "s"), ("varint", "n")])
    tmp = ctx.fresh_dir()
    try:
        srcs = []
        k = 0
        for i, payloads in enumerate((["a"], ["b", "x" * n, "c", "d"], ["e"])):
            p = os.path.join(tmp, "in%d.records%s" % (i, ".gz" if case["gz"] else ""))
            w = RecordWriter(p)
            for s_ in payloads:
                w.write(desc(s_, k, _generated=GEN))
                k += 1
            w.flush()
            w.close()
            srcs.append(p)
        want = list(range(k))
        opts = list(case["opts"])
        as_json = "-w-json" in opts
        if as_json:
            opts.remove("-w-json")
        outp = os.path.join(tmp, "out.json" if as_json else "out.records")
        if "--skip" in opts:
            want = want[1:]
        res = impl(run_rdump_inprocess, srcs + opts + ["-w", outp])
        if not res.ok:
            raise Violation("rdump/large/raised", "rdump %r raised %r" % (opts, res), detail=res.type)

        def rd():
            r = RecordReader(outp)
            try:
                return [(int(x.n), len(x.s)) for x in r]
            finally:
                r.close()

        got = impl(rd)
        if not got.ok:
            raise Violation("rdump/large/output-unreadable", "%r" % (got,))
        lens = {0: 1, 1: 1, 2: n, 3: 1, 4: 1, 5: 1}
        if got.value != [(i, lens[i]) for i in want]:
            raise Violation("rdump/large/records-differ", "a source with one %d-byte record: wrote (n, len) %r, expected n = %r"
                            % (n, got.value, want))
    finally:
        shutil.rmtree(tmp, ignore_errors=True)


def parts(tier):
    return [
        Part("in-process", check, strategy=case_strategy(), examples=(300, 4000)),
        Part("large-records", check_large_identity, cases=large_cases, exhaustive=True),
        Part("subprocess", check_subprocess, strategy=case_strategy(), examples=(6, 60)),
    ]
