"""Runner: seeds, sharding over 16 processes, budgets, evidence, replay files, exit codes.

Usage (through /verif/check):  check <ID> [--tier quick|thorough] [--replay FILE] [--part NAME] [--shards N]

Exit codes: 0 = property held on everything explored (KNOWN-FINDING lines allowed),
            1 = at least one `VIOLATION property=<ID> replay=<path>` line printed,
            2 = harness error (a bug in /verif code, import failure); never a VIOLATION.
"""
import argparse
import collections
import hashlib
import importlib
import json
import multiprocessing as mp
import os
import shutil
import sys
import tempfile
import time
import traceback

VERIF = os.path.dirname(os.path.dirname(os.path.abspath(__file__)))
if VERIF not in sys.path:
    sys.path.insert(0, VERIF)

REPO = os.path.realpath(os.environ.get("VERIF_REPO", "/repo"))
sys.path.insert(0, REPO)

from vlib import caseio, findings  # noqa: E402


class Violation(Exception):
    """Raised by a check when the property is violated. sig identifies the root-cause class."""

    def __init__(self, sig, message, extra=None, detail=None):
        super().__init__("%s: %s" % (sig, message))
        self.coarse = sig          # shrink target: the shrinker may move between details of one coarse class
        self.sig = sig if not detail else "%s/%s" % (sig, detail)   # reported / known-finding signature
        self.message = message
        self.extra = extra


class Ok:
    __slots__ = ("value",)
    ok = True

    def __init__(self, value):
        self.value = value

    def __repr__(self):
        return "Ok(%.200r)" % (self.value,)


class Raised:
    __slots__ = ("exc",)
    ok = False

    def __init__(self, exc):
        self.exc = exc

    @property
    def type(self):
        return type(self.exc).__name__

    def __repr__(self):
        return "Raised(%s: %.300s)" % (type(self.exc).__name__, self.exc)


def impl(fn, *a, **k):
    """Call into flow.record; exceptions are data for the oracle, not harness errors."""
    try:
        return Ok(fn(*a, **k))
    except Violation:
        raise
    except BaseException as e:  # noqa: B902
        if isinstance(e, (KeyboardInterrupt, SystemExit)):
            raise
        return Raised(e)  # incl. MemoryError: e.g. fastavro asked to read a garbage-declared 2**40 byte string


class Part:
    """One part of a property check.

    strategy : hypothesis strategy producing a caseio-encodable case  (random search), or
    cases    : callable(tier) -> list of cases (enumerated; sharded by index)
    check    : callable(case, ctx) -> None, raises Violation
    examples : (quick, thorough) max_examples per shard for strategy parts
    """

    def __init__(self, name, check, strategy=None, cases=None, examples=(100, 1000), shards=16, exhaustive=False,
                 rule=""):
        self.name = name
        self.check = check
        self.strategy = strategy
        self.cases = cases
        self.examples = examples
        self.shards = shards
        self.exhaustive = exhaustive
        self.rule = rule


class Ctx:
    """Per-shard statistics, filled by the checks."""

    def __init__(self, tier="quick", seed=0):
        self.tier = tier
        self.seed = seed
        self.evaluations = 0
        self.extra_evaluations = 0
        self.classes = collections.Counter()
        self.nontrivial = set()
        self.samples = []
        self.excluded_known = collections.Counter()
        self.budget_hit = False
        self._cur_nontrivial = False
        self._cur_keys = []
        self.tmp = None

    # --- called by checks
    def cls(self, *labels):
        for lab in labels:
            self.classes[lab] += 1

    def nontriv(self, key=None):
        """Mark the current case (or a sub-case identified by key) as non-trivial."""
        if key is None:
            self._cur_nontrivial = True
        else:
            self._cur_keys.append(key)

    def count(self, n=1):
        """Additional evaluations inside one generated case (sub-cases)."""
        self.extra_evaluations += n

    def tmpdir(self):
        if self.tmp is None:
            self.tmp = tempfile.mkdtemp(prefix="verif-w-")
        return self.tmp

    def fresh_dir(self):
        d = tempfile.mkdtemp(prefix="c-", dir=self.tmpdir())
        return d

    # --- called by runner
    def begin(self):
        self._cur_nontrivial = False
        self._cur_keys = []

    def end(self, case, part):
        self.evaluations += 1
        if self._cur_nontrivial or self._cur_keys:
            base = caseio.digest([part, case])
            if self._cur_nontrivial:
                self.nontrivial.add(base)
            for k in self._cur_keys:
                self.nontrivial.add(caseio.digest([base, k]))
            if len(self.samples) < 3:
                self.samples.append({"part": part, "case": caseio.short(case)})

    def cleanup(self):
        if self.tmp:
            shutil.rmtree(self.tmp, ignore_errors=True)
            self.tmp = None

    def export(self):
        return {
            "evaluations": self.evaluations + self.extra_evaluations,
            "cases": self.evaluations,
            "classes": dict(self.classes),
            "nontrivial": list(self.nontrivial),
            "samples": self.samples,
            "excluded_known": dict(self.excluded_known),
            "budget_hit": self.budget_hit,
        }


def mix(seed, *parts):
    h = hashlib.sha256(("%d|" % seed + "|".join(str(p) for p in parts)).encode()).digest()
    return int.from_bytes(h[:8], "big")


SOFT_CAP = {"quick": 600, "thorough": 5400}
MAX_ROUNDS = 6


def _run_one(part, case, ctx, known, session_excl):
    """Run check on one case. Returns None or a Violation that is not excluded."""
    ctx.begin()
    try:
        try:
            part.check(case, ctx)
        except Violation:
            raise
        except Exception as e:  # noqa: B902
            v = _violation_with_unprintable_message(e)
            if v is None:
                raise
            raise v from None
    except Violation as v:
        if v.sig in known:
            ctx.excluded_known[v.sig] += 1
            ctx.end(case, part.name)
            return None
        if v.sig in session_excl:
            ctx.end(case, part.name)
            return None
        return v
    ctx.end(case, part.name)
    return None


def _violation_with_unprintable_message(exc):
    """A check decided to raise Violation(...) but building its MESSAGE failed inside flow.record (repr()/str() of a
    value the changed code left in a broken state, e.g. a naive timestamp of year 1 going through the display zone).
    The verdict stands; only the text is lost. Recognised by the traceback: the innermost /verif/props frame sits in a
    `raise Violation(` statement and the frames below it belong to the repository."""
    import linecache
    import re

    tb = exc.__traceback__
    frames = []
    while tb is not None:
        frames.append((tb.tb_frame.f_code.co_filename, tb.tb_lineno))
        tb = tb.tb_next
    idx = [i for i, (fn, _) in enumerate(frames) if fn.startswith(os.path.join(VERIF, "props") + os.sep)]
    if not idx or idx[-1] == len(frames) - 1:
        return None
    if not all(fn.startswith(REPO + os.sep) or "/lib/python" in fn for fn, _ in frames[idx[-1] + 1:]):
        return None
    fn, ln = frames[idx[-1]]
    text = ""
    for k in range(ln, max(0, ln - 8), -1):
        text = linecache.getline(fn, k) + text
        if "raise Violation(" in linecache.getline(fn, k):
            m = re.search(r'raise Violation\(\s*(?:[A-Za-z_.]+\s*\+\s*)?"([^"]+)"', text)
            sig = "unprintable-violation/%s" % (m.group(1).strip("/") if m else "%s:%d" % (os.path.basename(fn), k))
            return Violation(sig, "the check at %s:%d found a violation, but its message could not be formatted: %s: %.300s"
                             % (os.path.basename(fn), k, type(exc).__name__, exc))
    return None


def run_shard(task):
    """Worker entry. Returns dict of stats, violations, harness error (if any)."""
    prop_id, part_name, shard, nshards, tier, seed, t_deadline = task
    res = {"part": part_name, "shard": shard, "violations": [], "error": None}
    ctx = Ctx(tier, seed)
    try:
        mod = importlib.import_module("props." + prop_id)
        part = [p for p in mod.parts(tier) if p.name == part_name][0]
        known = findings.known_sigs(prop_id)
        if part.cases is not None:
            cases = part.cases(tier)
            res["n_cases_total"] = len(cases)
            seen = set()
            for i in range(shard, len(cases), nshards):
                if time.time() > t_deadline:
                    ctx.budget_hit = True
                    break
                v = _run_one(part, cases[i], ctx, known, seen)
                if v is not None:
                    seen.add(v.sig)
                    res["violations"].append(_viol(prop_id, part_name, cases[i], v, seed, shard))
                    if len(seen) >= 8:
                        break
        else:
            _run_hyp(prop_id, part, ctx, known, tier, seed, shard, t_deadline, res)
    except BaseException:  # noqa: B902
        res["error"] = traceback.format_exc()
    finally:
        ctx.cleanup()
    res["stats"] = ctx.export()
    return res


def _viol(prop_id, part_name, case, v, seed, shard):
    return {
        "property": prop_id,
        "part": part_name,
        "sig": v.sig,
        "message": v.message[:4000],
        "case": caseio.enc(case),
        "seed": seed,
        "shard": shard,
    }


def _run_hyp(prop_id, part, ctx, known, tier, seed, shard, t_deadline, res):
    import hypothesis
    from hypothesis import HealthCheck, Phase, given, settings
    import hypothesis.internal.conjecture.engine as hce

    hce.MAX_SHRINKING_SECONDS = 25 if tier == "quick" else 120
    n = part.examples[0 if tier == "quick" else 1]
    if os.environ.get("VERIF_EXAMPLES_SCALE"):
        n = max(1, int(n * float(os.environ["VERIF_EXAMPLES_SCALE"])))
    session_excl = set()
    for rnd in range(MAX_ROUNDS):
        state = {"target": None, "last": None}
        hseed = mix(seed, prop_id, part.name, shard)

        def body(case):
            if time.time() > t_deadline and state["target"] is None:
                ctx.budget_hit = True
                return
            v = _run_one(part, case, ctx, known, session_excl)
            if v is None:
                return
            if state["target"] is None:
                state["target"] = v.coarse
            if v.coarse != state["target"]:
                return  # a different root cause: found in a later round
            state["last"] = (case, v)
            raise v

        test = settings(
            max_examples=n,
            database=None,
            deadline=None,
            derandomize=False,
            report_multiple_bugs=False,
            suppress_health_check=list(HealthCheck),
            phases=[Phase.generate, Phase.shrink],
            print_blob=False,
        )(hypothesis.seed(hseed)(given(part.strategy)(body)))
        try:
            test()
        except Violation:
            case, v = state["last"]
            res["violations"].append(_viol(prop_id, part.name, case, v, seed, shard))
            session_excl.add(v.sig)
            continue
        break


def _replay_file(prop_id, path, tier="quick"):
    """Re-run one saved case through the plain oracle. Returns (Violation|None, record)."""
    with open(path) as f:
        rec = json.load(f)
    mod = importlib.import_module("props." + prop_id)
    part = [p for p in mod.parts(tier) if p.name == rec["part"]]
    if not part:
        raise RuntimeError("replay file %s names unknown part %r" % (path, rec["part"]))
    ctx = Ctx(tier, 0)
    ctx.begin()
    try:
        part[0].check(caseio.dec(rec["case"]), ctx)
    except Violation as v:
        return v, rec
    finally:
        ctx.cleanup()
    return None, rec


def _check_repo():
    try:
        import flow.record
    except Exception:
        print("HARNESS-ERROR: cannot import flow.record from %s" % REPO)
        traceback.print_exc()
        sys.exit(2)
    f = os.path.realpath(flow.record.__file__)
    if not f.startswith(REPO + os.sep):
        print("HARNESS-ERROR: flow.record imported from %s, not from %s" % (f, REPO))
        sys.exit(2)


def write_replay(v):
    h = hashlib.sha256((v["sig"] + "|" + v["part"]).encode()).hexdigest()[:10]
    d = os.path.join(VERIF, "replays")
    os.makedirs(d, exist_ok=True)
    path = os.path.join(d, "%s-%s.json" % (v["property"], h))
    with open(path, "w") as f:
        json.dump(v, f, indent=1, sort_keys=True)
    return path


def main(argv=None):
    ap = argparse.ArgumentParser()
    ap.add_argument("prop")
    ap.add_argument("--tier", default=os.environ.get("VERIF_TIER") or "quick", choices=["quick", "thorough"])
    ap.add_argument("--replay")
    ap.add_argument("--part")
    ap.add_argument("--shards", type=int)
    ap.add_argument("--no-evidence", action="store_true")
    args = ap.parse_args(argv)
    prop_id = args.prop
    tier = args.tier
    try:
        seed = int(os.environ.get("VERIF_SEED") or "1")
    except ValueError:
        seed = 1
    t0 = time.time()
    _check_repo()
    try:
        mod = importlib.import_module("props." + prop_id)
    except Exception:
        print("HARNESS-ERROR: cannot import props.%s" % prop_id)
        traceback.print_exc()
        return 2

    if args.replay:
        try:
            v, rec = _replay_file(prop_id, args.replay, tier)
        except Exception:
            print("HARNESS-ERROR: replay failed")
            traceback.print_exc()
            return 2
        if v is None:
            print("REPLAY-PASS property=%s file=%s" % (prop_id, args.replay))
            return 0
        print("REPLAY-FAIL sig=%s %s" % (v.sig, v.message[:2000]))
        print("VIOLATION property=%s replay=%s" % (prop_id, os.path.abspath(args.replay)))
        return 1

    violations = []
    harness_errors = []
    known_lines = []

    # ---- 1. replay tier: known findings + regression corpus
    known = findings.known_entries(prop_id)
    replayed = 0
    for ent in known:
        path = os.path.join(VERIF, ent["replay"])
        try:
            v, rec = _replay_file(prop_id, path, tier)
        except Exception:
            harness_errors.append("known-finding replay %s:\n%s" % (path, traceback.format_exc()))
            continue
        replayed += 1
        if v is not None and v.sig == ent["sig"]:
            known_lines.append("KNOWN-FINDING: property=%s %s [sig=%s]" % (prop_id, ent["text"], ent["sig"]))
        elif v is None:
            known_lines.append("KNOWN-FINDING-RESOLVED: property=%s sig=%s no longer fails" % (prop_id, ent["sig"]))
        else:
            if v.sig in findings.known_sigs(prop_id):
                known_lines.append("KNOWN-FINDING: property=%s %s [sig=%s]" % (prop_id, ent["text"], v.sig))
            else:
                violations.append(
                    {"property": prop_id, "part": rec["part"], "sig": v.sig, "message": v.message[:4000],
                     "case": rec["case"], "seed": seed, "shard": -1})
    known_files = {os.path.realpath(os.path.join(VERIF, e["replay"])) for e in known}
    rdir = os.path.join(VERIF, "corpus", "regress", prop_id)
    regress_n = 0
    if os.path.isdir(rdir):
        for fn in sorted(os.listdir(rdir)):
            path = os.path.join(rdir, fn)
            if not fn.endswith(".json") or os.path.realpath(path) in known_files:
                continue
            try:
                v, rec = _replay_file(prop_id, path, tier)
            except Exception:
                harness_errors.append("regress replay %s:\n%s" % (path, traceback.format_exc()))
                continue
            regress_n += 1
            if v is not None and v.sig not in findings.known_sigs(prop_id):
                violations.append(
                    {"property": prop_id, "part": rec["part"], "sig": v.sig, "message": v.message[:4000],
                     "case": rec["case"], "seed": seed, "shard": -1, "from_regress": fn})

    # ---- 2. search tier
    parts = mod.parts(tier)
    if args.part:
        parts = [p for p in parts if p.name == args.part]
    t_deadline = t0 + SOFT_CAP[tier]
    tasks = []
    for p in parts:
        ns = args.shards or p.shards
        if p.cases is not None:
            ncases = len(p.cases(tier))
            ns = max(1, min(ns, ncases))
        for i in range(ns):
            tasks.append((prop_id, p.name, i, ns, tier, seed, t_deadline))
    agg = {p.name: {"evaluations": 0, "cases": 0, "shards": 0, "exhaustive": p.exhaustive, "budget_hit": False}
           for p in parts}
    classes = collections.Counter()
    nontriv = set()
    samples = []
    excluded = collections.Counter()
    nproc = min(16, max(1, len(tasks)))
    if os.environ.get("VERIF_PROCS"):
        nproc = int(os.environ["VERIF_PROCS"])
    results = []
    if nproc == 1:
        results = [run_shard(t) for t in tasks]
    else:
        ctxm = mp.get_context("fork")
        with ctxm.Pool(nproc, maxtasksperchild=1) as pool:  # a fresh fork per shard: what one shard imported or cached never shapes another (Hypothesis seeds its generators with constants found in the modules loaded so far)
            for r in pool.imap_unordered(run_shard, tasks, chunksize=1):
                results.append(r)
            pool.close()   # let the workers exit by themselves (atexit handlers run: tools/covsurvey.sh needs that)
            pool.join()
    results.sort(key=lambda r: (r["part"], r["shard"]))
    for r in results:
        if r["error"]:
            harness_errors.append("part %s shard %s:\n%s" % (r["part"], r["shard"], r["error"]))
        st = r.get("stats")
        if st:
            a = agg[r["part"]]
            a["evaluations"] += st["evaluations"]
            a["cases"] += st["cases"]
            a["shards"] += 1
            a["budget_hit"] = a["budget_hit"] or st["budget_hit"]
            if "n_cases_total" in r:
                a["enumerated_total"] = r["n_cases_total"]
            classes.update(st["classes"])
            nontriv.update(st["nontrivial"])
            excluded.update(st["excluded_known"])
            for s in st["samples"]:
                if sum(1 for x in samples if x["part"] == s["part"]) < 3 and len(samples) < 12:
                    samples.append(s)
        violations.extend(r["violations"])
    for a in agg.values():
        if a["budget_hit"]:
            a["exhaustive"] = False

    # ---- 3. report
    by_sig = {}
    for v in violations:
        by_sig.setdefault((v["part"], v["sig"]), v)
    for line in known_lines:
        print(line)
    vio_paths = []
    for (pn, sig), v in sorted(by_sig.items()):
        path = write_replay(v)
        vio_paths.append(path)
        print("DETAIL part=%s sig=%s :: %s" % (pn, sig, v["message"][:1500].replace("\n", " | ")))
        print("VIOLATION property=%s replay=%s" % (prop_id, path))
    for e in harness_errors:
        print("HARNESS-ERROR: " + e)

    total_eval = sum(a["evaluations"] for a in agg.values()) + replayed + regress_n
    wall = time.time() - t0
    if not args.no_evidence and not args.part:
        if not samples:
            samples = [{"note": "no non-trivial sample captured"}]
        ev = {
            "property_id": prop_id,
            "tier": tier,
            "seed": seed,
            "level": getattr(mod, "LEVEL", "exploration"),
            "coverage": {
                "evaluations": total_eval,
                "distinct_nontrivial": len(nontriv),
                "rule": getattr(mod, "RULE", ""),
                "samples": samples,
                "exhaustive": bool(agg) and all(a["exhaustive"] for a in agg.values()),
                "parts": agg,
                "classes": dict(sorted(classes.items())),
                "excluded_known": dict(excluded),
                "known_findings_replayed": replayed,
                "regression_cases_replayed": regress_n,
                "repo": REPO,
            },
            "assumptions": getattr(mod, "ASSUMPTIONS", []),
            "wall_s": round(wall, 2),
            "violations": len(by_sig),
        }
        os.makedirs(os.path.join(VERIF, "evidence"), exist_ok=True)
        with open(os.path.join(VERIF, "evidence", prop_id + ".json"), "w") as f:
            json.dump(ev, f, indent=1, sort_keys=True)
    print(
        "SUMMARY property=%s tier=%s seed=%d evaluations=%d distinct_nontrivial=%d excluded_known=%d violations=%d "
        "harness_errors=%d wall=%.1fs"
        % (prop_id, tier, seed, total_eval, len(nontriv), sum(excluded.values()), len(by_sig), len(harness_errors),
           wall)
    )
    if by_sig:
        return 1
    return 2 if harness_errors else 0


if __name__ == "__main__":
    sys.exit(main())
