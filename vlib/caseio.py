"""Lossless JSON (de)serialisation of generated cases -> replay files / digests.

Cases are built from: None, bool, int (any size), float (bit exact), str (lone surrogates kept),
bytes, list, tuple, dict, datetime (naive / utc / fixed offset / IANA zone, fold), and M markers
(builder instructions such as "a windows path given as PureWindowsPath", "a nested record").
"""
import datetime as _d
import hashlib
import json
import struct
from zoneinfo import ZoneInfo


class M:
    """Marker: an instruction for a builder (kind, payload). Payload is itself caseio-encodable."""

    __slots__ = ("kind", "p")

    def __init__(self, kind, p=None):
        self.kind = kind
        self.p = p

    def __repr__(self):
        return "M(%r, %r)" % (self.kind, self.p)

    def __eq__(self, o):
        return isinstance(o, M) and (self.kind, self.p) == (o.kind, o.p)

    def __hash__(self):
        return hash((self.kind, repr(self.p)))


def enc_tz(tz):
    if tz is None:
        return None
    if tz is _d.timezone.utc:
        return "utc"
    if isinstance(tz, ZoneInfo):
        return {"zone": tz.key}
    if isinstance(tz, _d.timezone):
        off = tz.utcoffset(None)
        return {"off_us": off.days * 86400 * 10**6 + off.seconds * 10**6 + off.microseconds}
    raise TypeError("cannot encode tzinfo %r" % (tz,))


def dec_tz(t):
    if t is None:
        return None
    if t == "utc":
        return _d.timezone.utc
    if "zone" in t:
        return ZoneInfo(t["zone"])
    return _d.timezone(_d.timedelta(microseconds=t["off_us"]))


def enc(o):
    if o is None or o is True or o is False:
        return o
    if isinstance(o, M):
        return {"$m": o.kind, "p": enc(o.p)}
    if isinstance(o, bool):
        return bool(o)
    if isinstance(o, int):
        return int(o)
    if isinstance(o, float):
        return {"$f": struct.pack(">d", o).hex()}
    if isinstance(o, str):
        return str(o)
    if isinstance(o, (bytes, bytearray)):
        return {"$b": bytes(o).hex()}
    if isinstance(o, _d.datetime):
        return {
            "$dt": [o.year, o.month, o.day, o.hour, o.minute, o.second, o.microsecond],
            "tz": enc_tz(o.tzinfo),
            "fold": o.fold,
        }
    if isinstance(o, list):
        return [enc(x) for x in o]
    if isinstance(o, tuple):
        return {"$t": [enc(x) for x in o]}
    if isinstance(o, dict):
        return {"$d": [[enc(k), enc(v)] for k, v in o.items()]}
    raise TypeError("caseio cannot encode %r" % (type(o),))


def dec(j):
    if j is None or j is True or j is False or isinstance(j, (int, str)):
        return j
    if isinstance(j, float):
        return j
    if isinstance(j, list):
        return [dec(x) for x in j]
    if isinstance(j, dict):
        if "$m" in j:
            return M(j["$m"], dec(j["p"]))
        if "$f" in j:
            return struct.unpack(">d", bytes.fromhex(j["$f"]))[0]
        if "$b" in j:
            return bytes.fromhex(j["$b"])
        if "$dt" in j:
            return _d.datetime(*j["$dt"], tzinfo=dec_tz(j["tz"]), fold=j.get("fold", 0))
        if "$t" in j:
            return tuple(dec(x) for x in j["$t"])
        if "$d" in j:
            return {dec(k): dec(v) for k, v in j["$d"]}
    raise TypeError("caseio cannot decode %r" % (j,))


def dumps(o, **kw):
    return json.dumps(enc(o), ensure_ascii=True, sort_keys=True, **kw)


def loads(s):
    return dec(json.loads(s))


def digest(o):
    """64-bit digest of a case (used for distinct counting)."""
    return int.from_bytes(hashlib.blake2b(dumps(o).encode(), digest_size=8).digest(), "big")


def short(o, limit=1500):
    """JSON-able, size-limited rendering of a case for evidence samples."""
    s = dumps(o)
    if len(s) <= limit:
        return json.loads(s)
    return {"truncated_json": s[:limit], "full_len": len(s)}
