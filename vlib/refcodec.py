"""Independent reference codec for the record-stream wire format (DESIGN 3.3).

Does not import flow.record or msgpack.  Own msgpack subset (strict decoder, width-varying encoder),
frame layer, ext type 14 sub-types, descriptor identifier hash (hashlib), and a *model* of records:

  value models (by declared field type):
    ("none",) ("bool",b) ("int",n) ("float",8 bytes) ("str",utf8-surrogatepass bytes) ("bytes",b)
    ("dt",Y,M,D,h,m,s,us,offset_us) ("digest",md5,sha1,sha256) ("path",flavour,str)
    ("command",flavour,exe|None,args|None) ("ip",version,int) ("net",version,int,prefix) ("ip4",int)
    ("list",(...)) ("dict",((k,v),...)) record models
  record model : ("record", name, ((type,fname),...), (field models...), (src, cls, generated, version))
  grouped model: ("grouped", name, (record models...))
"""
import datetime as _d
import hashlib
import ipaddress as _ip
import struct

MAGIC = b"RECORDSTREAM\n"
HEADER_FRAME = b"\x00\x00\x00\x0f\xc4\x0d" + MAGIC
EXT = 14
T_RECORD, T_DESC, T_DT, T_VARINT, T_GROUPED = 0x01, 0x02, 0x10, 0x11, 0x12
RESERVED = (("string", "_source"), ("string", "_classification"), ("datetime", "_generated"), ("varint", "_version"))


class FormatError(Exception):
    pass


class Ext:
    __slots__ = ("code", "data")

    def __init__(self, code, data):
        self.code = code
        self.data = data

    def __repr__(self):
        return "Ext(%d, %r)" % (self.code, self.data[:40])

    def __eq__(self, o):
        return isinstance(o, Ext) and (self.code, self.data) == (o.code, o.data)


class F32(float):
    """A float that was (or must be) encoded as msgpack float32."""


# ---------------------------------------------------------------------------------------------
# msgpack subset: strict decoder


def _need(b, i, n):
    if i + n > len(b):
        raise FormatError("truncated msgpack value at %d (need %d bytes)" % (i, n))


def _str(raw):
    return raw.decode("utf-8", "surrogateescape")


def unpack_one(b, i=0):
    """Decode one msgpack value at b[i:]; returns (value, next index)."""
    _need(b, i, 1)
    c = b[i]
    i += 1
    if c <= 0x7F:
        return c, i
    if c >= 0xE0:
        return c - 0x100, i
    if 0x80 <= c <= 0x8F:
        return _map(b, i, c & 0x0F)
    if 0x90 <= c <= 0x9F:
        return _arr(b, i, c & 0x0F)
    if 0xA0 <= c <= 0xBF:
        n = c & 0x1F
        _need(b, i, n)
        return _str(b[i : i + n]), i + n
    if c == 0xC0:
        return None, i
    if c == 0xC2:
        return False, i
    if c == 0xC3:
        return True, i
    if c in (0xC4, 0xC5, 0xC6):
        w = {0xC4: 1, 0xC5: 2, 0xC6: 4}[c]
        _need(b, i, w)
        n = int.from_bytes(b[i : i + w], "big")
        i += w
        _need(b, i, n)
        return bytes(b[i : i + n]), i + n
    if c in (0xC7, 0xC8, 0xC9):
        w = {0xC7: 1, 0xC8: 2, 0xC9: 4}[c]
        _need(b, i, w + 1)
        n = int.from_bytes(b[i : i + w], "big")
        i += w
        code = struct.unpack("b", b[i : i + 1])[0]
        i += 1
        _need(b, i, n)
        return Ext(code, bytes(b[i : i + n])), i + n
    if c == 0xCA:
        _need(b, i, 4)
        return F32(struct.unpack(">f", b[i : i + 4])[0]), i + 4
    if c == 0xCB:
        _need(b, i, 8)
        return struct.unpack(">d", b[i : i + 8])[0], i + 8
    if c in (0xCC, 0xCD, 0xCE, 0xCF):
        w = 1 << (c - 0xCC)
        _need(b, i, w)
        return int.from_bytes(b[i : i + w], "big"), i + w
    if c in (0xD0, 0xD1, 0xD2, 0xD3):
        w = 1 << (c - 0xD0)
        _need(b, i, w)
        return int.from_bytes(b[i : i + w], "big", signed=True), i + w
    if c in (0xD4, 0xD5, 0xD6, 0xD7, 0xD8):
        n = 1 << (c - 0xD4)
        _need(b, i, 1 + n)
        code = struct.unpack("b", b[i : i + 1])[0]
        return Ext(code, bytes(b[i + 1 : i + 1 + n])), i + 1 + n
    if c in (0xD9, 0xDA, 0xDB):
        w = {0xD9: 1, 0xDA: 2, 0xDB: 4}[c]
        _need(b, i, w)
        n = int.from_bytes(b[i : i + w], "big")
        i += w
        _need(b, i, n)
        return _str(b[i : i + n]), i + n
    if c in (0xDC, 0xDD):
        w = 2 if c == 0xDC else 4
        _need(b, i, w)
        return _arr(b, i + w, int.from_bytes(b[i : i + w], "big"))
    if c in (0xDE, 0xDF):
        w = 2 if c == 0xDE else 4
        _need(b, i, w)
        return _map(b, i + w, int.from_bytes(b[i : i + w], "big"))
    raise FormatError("reserved msgpack byte 0x%02x" % c)


def _arr(b, i, n):
    out = []
    for _ in range(n):
        v, i = unpack_one(b, i)
        out.append(v)
    return out, i


def _map(b, i, n):
    out = {}
    for _ in range(n):
        k, i = unpack_one(b, i)
        v, i = unpack_one(b, i)
        try:
            out[k] = v
        except TypeError:  # list, dict or extension object as key: garbage bytes read as msgpack, never this format
            raise FormatError("unhashable map key")
    return out, i


def unpack_exact(b):
    v, i = unpack_one(b, 0)
    if i != len(b):
        raise FormatError("trailing bytes after msgpack value (%d of %d consumed)" % (i, len(b)))
    return v


# ---------------------------------------------------------------------------------------------
# msgpack subset: encoder with selectable (non-minimal) widths


class Widths:
    """Source of width choices: cycles through a list of small ints (0 = minimal)."""

    def __init__(self, choices=None):
        self.choices = list(choices or [0])
        self.i = 0

    def next(self):
        c = self.choices[self.i % len(self.choices)]
        self.i += 1
        return c


def _pick(options, w):
    return options[min(w.next(), len(options) - 1)]


def pack(o, w=None):
    w = w or Widths()
    if o is None:
        return b"\xc0"
    if o is True:
        return b"\xc3"
    if o is False:
        return b"\xc2"
    if isinstance(o, int):
        opts = []
        if o >= 0:
            if o <= 0x7F:
                opts.append(bytes([o]))
            for k, code in enumerate((0xCC, 0xCD, 0xCE, 0xCF)):
                wd = 1 << k
                if o < (1 << (8 * wd)):
                    opts.append(bytes([code]) + o.to_bytes(wd, "big"))
            for k, code in enumerate((0xD0, 0xD1, 0xD2, 0xD3)):
                wd = 1 << k
                if o < (1 << (8 * wd - 1)):
                    opts.append(bytes([code]) + o.to_bytes(wd, "big", signed=True))
        else:
            if o >= -32:
                opts.append(bytes([o + 0x100]))
            for k, code in enumerate((0xD0, 0xD1, 0xD2, 0xD3)):
                wd = 1 << k
                if o >= -(1 << (8 * wd - 1)):
                    opts.append(bytes([code]) + o.to_bytes(wd, "big", signed=True))
        if not opts:
            raise OverflowError("int does not fit msgpack: use ext varint")
        return _pick(opts, w)
    if isinstance(o, F32):
        return b"\xca" + struct.pack(">f", o)
    if isinstance(o, float):
        return b"\xcb" + struct.pack(">d", o)
    if isinstance(o, str):
        raw = o.encode("utf-8", "surrogateescape")
        n = len(raw)
        opts = []
        if n <= 31:
            opts.append(bytes([0xA0 | n]))
        if n <= 0xFF:
            opts.append(b"\xd9" + bytes([n]))
        if n <= 0xFFFF:
            opts.append(b"\xda" + n.to_bytes(2, "big"))
        opts.append(b"\xdb" + n.to_bytes(4, "big"))
        return _pick(opts, w) + raw
    if isinstance(o, (bytes, bytearray)):
        n = len(o)
        opts = []
        if n <= 0xFF:
            opts.append(b"\xc4" + bytes([n]))
        if n <= 0xFFFF:
            opts.append(b"\xc5" + n.to_bytes(2, "big"))
        opts.append(b"\xc6" + n.to_bytes(4, "big"))
        return _pick(opts, w) + bytes(o)
    if isinstance(o, (list, tuple)):
        n = len(o)
        opts = []
        if n <= 15:
            opts.append(bytes([0x90 | n]))
        if n <= 0xFFFF:
            opts.append(b"\xdc" + n.to_bytes(2, "big"))
        opts.append(b"\xdd" + n.to_bytes(4, "big"))
        head = _pick(opts, w)
        return head + b"".join(pack(x, w) for x in o)
    if isinstance(o, dict):
        n = len(o)
        opts = []
        if n <= 15:
            opts.append(bytes([0x80 | n]))
        if n <= 0xFFFF:
            opts.append(b"\xde" + n.to_bytes(2, "big"))
        opts.append(b"\xdf" + n.to_bytes(4, "big"))
        head = _pick(opts, w)
        return head + b"".join(pack(k, w) + pack(v, w) for k, v in o.items())
    if isinstance(o, Ext):
        n = len(o.data)
        code = struct.pack("b", o.code)
        opts = []
        if n in (1, 2, 4, 8, 16):
            opts.append(bytes([0xD4 + (1, 2, 4, 8, 16).index(n)]) + code)
        if n <= 0xFF:
            opts.append(b"\xc7" + bytes([n]) + code)
        if n <= 0xFFFF:
            opts.append(b"\xc8" + n.to_bytes(2, "big") + code)
        opts.append(b"\xc9" + n.to_bytes(4, "big") + code)
        return _pick(opts, w) + o.data
    raise TypeError("refcodec cannot pack %r" % (type(o),))


def frame(payload):
    return struct.pack(">I", len(payload)) + payload


def ext14(subtype, value, w=None):
    return Ext(EXT, pack([subtype, value], w))


# ---------------------------------------------------------------------------------------------
# descriptor identifier


def descriptor_hash(name, fields):
    data = name + "".join(fname + tname for tname, fname in fields)
    return int.from_bytes(hashlib.sha256(data.encode()).digest()[:4], "big")


# ---------------------------------------------------------------------------------------------
# frame / event layer


def split_frames(data):
    """Returns (frames, tail): frames = [(start, end, payload bytes)], complete frames only;
    tail = offset where the first incomplete frame starts (== len(data) when none)."""
    out = []
    i = 0
    n = len(data)
    while True:
        if i + 4 > n:
            return out, i
        ln = struct.unpack(">I", data[i : i + 4])[0]
        if i + 4 + ln > n:
            return out, i
        out.append((i, i + 4 + ln, data[i + 4 : i + 4 + ln]))
        i += 4 + ln


class Event:
    __slots__ = ("kind", "start", "end", "name", "fields", "ident", "values", "members")

    def __init__(self, kind, start, end, **kw):
        self.kind = kind
        self.start = start
        self.end = end
        for k in ("name", "fields", "ident", "values", "members"):
            setattr(self, k, kw.get(k))

    def __repr__(self):
        return "<%s %d-%d %s>" % (self.kind, self.start, self.end, self.name or self.ident or "")


def _ident(x):
    if isinstance(x, list) and len(x) == 2 and isinstance(x[0], str) and isinstance(x[1], int):
        return (x[0], x[1])
    if isinstance(x, str):
        return x
    raise FormatError("bad record identifier %r" % (x,))


def decode_ext14(e):
    if not isinstance(e, Ext) or e.code != EXT:
        raise FormatError("expected ext type 14, got %r" % (e,))
    v = unpack_exact(e.data)
    if not (isinstance(v, list) and len(v) == 2 and isinstance(v[0], int)):
        raise FormatError("ext 14 payload is not [subtype, value]")
    return v[0], v[1]


def parse_events(data, strict=True):
    """Parse a complete stream into events. strict: header frame must be byte-exact and every
    frame must be exactly one msgpack value of the documented shape."""
    frames, tail = split_frames(data)
    if tail != len(data):
        raise FormatError("stream ends inside a frame at offset %d" % tail)
    if not frames:
        raise FormatError("empty stream: no header frame")
    if strict and data[: len(HEADER_FRAME)] != HEADER_FRAME:
        raise FormatError("header frame is not byte-exact: %r" % data[: len(HEADER_FRAME)])
    events = []
    for k, (s, e, payload) in enumerate(frames):
        v = unpack_exact(payload)
        if isinstance(v, bytes):
            if v != MAGIC:
                raise FormatError("unexpected bin frame %r" % v[:20])
            events.append(Event("HEADER", s, e))
            continue
        sub, val = decode_ext14(v)
        if sub == T_DESC:
            if not (isinstance(val, list) and len(val) == 2 and isinstance(val[0], str) and isinstance(val[1], list)):
                raise FormatError("bad descriptor payload")
            fields = []
            for f in val[1]:
                if not (isinstance(f, list) and len(f) == 2 and all(isinstance(x, str) for x in f)):
                    raise FormatError("bad descriptor field %r" % (f,))
                fields.append((f[0], f[1]))
            events.append(Event("DESC", s, e, name=val[0], fields=tuple(fields)))
        elif sub == T_RECORD:
            if not (isinstance(val, list) and len(val) == 2 and isinstance(val[1], list)):
                raise FormatError("bad record payload")
            events.append(Event("REC", s, e, ident=_ident(val[0]), values=val[1]))
        elif sub == T_GROUPED:
            if not (isinstance(val, list) and len(val) == 2 and isinstance(val[0], str) and isinstance(val[1], list)):
                raise FormatError("bad grouped payload")
            members = []
            for m in val[1]:
                if not (isinstance(m, list) and len(m) == 2 and isinstance(m[1], list)):
                    raise FormatError("bad grouped member")
                members.append((_ident(m[0]), m[1]))
            events.append(Event("GROUPED", s, e, name=val[0], members=members))
        else:
            raise FormatError("unexpected frame sub-type 0x%x" % sub)
    if events[0].kind != "HEADER":
        raise FormatError("first frame is not the header")
    return events


# ---------------------------------------------------------------------------------------------
# wire value -> model, by declared type


def _resolve_scalar(v):
    """Resolve ext-encoded big ints; other values unchanged."""
    if isinstance(v, Ext):
        sub, val = decode_ext14(v)
        if sub == T_VARINT:
            neg, mag = val
            if not isinstance(mag, bytes):
                raise FormatError("varint magnitude not bin")
            n = int.from_bytes(mag, "big")
            return -n if neg else n
        return ("ext", sub, val)
    return v


def _m_str(v):
    if not isinstance(v, str):
        raise FormatError("expected str on the wire, got %r" % (type(v),))
    return ("str", v.encode("utf-8", "surrogatepass"))


def _m_int(v):
    v = _resolve_scalar(v)
    if isinstance(v, bool) or not isinstance(v, int):
        raise FormatError("expected int on the wire, got %r" % (v,))
    return ("int", v)


def _m_dt(v):
    r = _resolve_scalar(v)
    if not (isinstance(r, tuple) and r[0] == "ext" and r[1] == T_DT):
        raise FormatError("expected timestamp ext, got %r" % (v,))
    val = r[2]
    if len(val) == 7 and all(isinstance(x, int) for x in val):
        return ("dt",) + tuple(val) + (0,)
    if len(val) == 1 and isinstance(val[0], str):
        d = _d.datetime.fromisoformat(val[0])
        off = d.utcoffset()
        offus = 0 if off is None else (off.days * 86400 + off.seconds) * 10**6 + off.microseconds
        return ("dt", d.year, d.month, d.day, d.hour, d.minute, d.second, d.microsecond, offus)
    raise FormatError("bad timestamp payload %r" % (val,))


def dt_model(d):
    off = d.utcoffset()
    offus = 0 if off is None else (off.days * 86400 + off.seconds) * 10**6 + off.microseconds
    return ("dt", d.year, d.month, d.day, d.hour, d.minute, d.second, d.microsecond, offus)


def _loose(v):
    v = _resolve_scalar(v)
    if v is None:
        return ("none",)
    if isinstance(v, bool):
        return ("bool", v)
    if isinstance(v, int):
        return ("int", v)
    if isinstance(v, float):
        return ("float", struct.pack(">d", v))
    if isinstance(v, str):
        return ("str", v.encode("utf-8", "surrogatepass"))
    if isinstance(v, bytes):
        return ("bytes", v)
    if isinstance(v, list):
        return ("list", tuple(_loose(x) for x in v))
    if isinstance(v, dict):
        return ("dict", tuple(sorted((_loose(k), _loose(x)) for k, x in v.items())))
    if isinstance(v, tuple) and v[0] == "ext" and v[1] == T_DT:
        return _m_dt(Ext(EXT, pack([T_DT, v[2]])))
    raise FormatError("unsupported loose value %r" % (v,))


def wire_to_model(tname, v, descs):
    """descs: dict identifier -> (name, fields) as registered so far (for nested records)."""
    if tname.endswith("[]"):
        if v is None:
            return ("none",)
        if not isinstance(v, list):
            raise FormatError("typed list %s not an array" % tname)
        return ("list", tuple(wire_to_model(tname[:-2], x, descs) for x in v))
    if v is None:
        return ("none",)
    if tname == "boolean":
        if not isinstance(v, bool):
            raise FormatError("boolean not a msgpack bool: %r" % (v,))
        return ("bool", v)
    if tname in ("varint", "filesize", "unix_file_mode", "uint16", "uint32", "net.tcp.Port", "net.udp.Port"):
        return _m_int(v)
    if tname == "float":
        if not isinstance(v, float):
            raise FormatError("float not a msgpack float: %r" % (v,))
        return ("float", struct.pack(">d", v))
    if tname in ("string", "wstring", "uri"):
        return _m_str(v)
    if tname == "bytes":
        if not isinstance(v, bytes):
            raise FormatError("bytes not bin")
        return ("bytes", v)
    if tname == "datetime":
        return _m_dt(v)
    if tname == "digest":
        if not (isinstance(v, list) and len(v) == 3 and all(x is None or isinstance(x, bytes) for x in v)):
            raise FormatError("bad digest %r" % (v,))
        return ("digest",) + tuple(None if x is None else x.hex() for x in v)
    if tname == "path":
        if not (isinstance(v, list) and len(v) == 2 and isinstance(v[0], str) and v[1] in (0, 1)):
            raise FormatError("bad path %r" % (v,))
        return ("path", "windows" if v[1] == 1 else "posix", v[0])
    if tname == "command":
        if not (isinstance(v, list) and len(v) == 2 and v[1] in (0, 1)):
            raise FormatError("bad command %r" % (v,))
        flavour = "windows" if v[1] == 1 else "posix"
        if v[0] is None:
            return ("command", flavour, None, None)
        exe, args = v[0]
        return ("command", flavour, exe, tuple(args))
    if tname in ("net.ipaddress", "net.IPAddress"):
        r = _resolve_scalar(v)
        if isinstance(r, str):
            # frozen encoding: an address is its integer value; text only for the IPv6 addresses below 2**32,
            # whose integer would be read back as IPv4 (repair F01)
            a = _ip.ip_address(r)
            if a.version != 6 or int(a) > 0xFFFFFFFF:
                raise FormatError("address %s written as text, the format encodes it as an integer" % r)
            return ("ip", a.version, int(a))
        if isinstance(r, bool) or not isinstance(r, int):
            raise FormatError("bad ipaddress %r" % (v,))
        return ("ip", 4 if r < 2**32 else 6, r)
    if tname in ("net.ipnetwork", "net.IPNetwork"):
        n = _ip.ip_network(v)
        return ("net", n.version, int(n.network_address), n.prefixlen)
    if tname == "net.ipv4.Address":
        return ("ip4", _m_int(v)[1])
    if tname == "stringlist":
        if not isinstance(v, list):
            raise FormatError("stringlist not array")
        return ("list", tuple(_m_str(x) for x in v))
    if tname == "dictlist":
        if not isinstance(v, list):
            raise FormatError("dictlist not array")
        return ("list", tuple(_loose(x) for x in v))
    if tname == "dynamic":
        return _loose(v)
    if tname == "record":
        r = _resolve_scalar(v)
        if not (isinstance(r, tuple) and r[0] == "ext"):
            raise FormatError("nested record not ext: %r" % (v,))
        if r[1] == T_RECORD:
            return record_model_from_wire(_ident(r[2][0]), r[2][1], descs)
        if r[1] == T_GROUPED:
            return ("grouped", r[2][0], tuple(record_model_from_wire(_ident(m[0]), m[1], descs) for m in r[2][1]))
        raise FormatError("nested value is not a record")
    raise FormatError("unknown field type %s" % tname)


def record_model_from_wire(ident, values, descs):
    if ident not in descs:
        raise FormatError("record %r before its descriptor" % (ident,))
    name, fields = descs[ident]
    n = len(fields)
    if len(values) != n + 4:
        raise FormatError("record %s has %d values, descriptor wants %d+4" % (name, len(values), n))
    fm = tuple(wire_to_model(t, v, descs) for (t, _), v in zip(fields, values[:n]))
    src, cls, gen, ver = values[n:]
    meta = (
        wire_to_model("string", src, descs),
        wire_to_model("string", cls, descs),
        wire_to_model("datetime", gen, descs),
        wire_to_model("varint", ver, descs),
    )
    return ("record", name, tuple(fields), fm, meta)


def nested_idents(values):
    """All record identifiers referenced from nested ext values inside a value list."""
    out = []

    def walk(v):
        if isinstance(v, Ext) and v.code == EXT:
            try:
                sub, val = decode_ext14(v)
            except FormatError:
                return
            if sub == T_RECORD:
                out.append(_ident(val[0]))
                for x in val[1]:
                    walk(x)
            elif sub == T_GROUPED:
                for m in val[1]:
                    out.append(_ident(m[0]))
                    for x in m[1]:
                        walk(x)
        elif isinstance(v, list):
            for x in v:
                walk(x)

    for v in values:
        walk(v)
    return out


def decode_stream(data):
    """Strict decode of a complete stream -> (events, [record/grouped models in order]).

    Enforces: every REC/GROUPED (and nested record) is preceded by a DESC with its identifier, whose
    hash equals /verif's own SHA-256 computation."""
    events = parse_events(data, strict=True)
    descs = {}
    models = []
    for ev in events:
        if ev.kind == "DESC":
            h = descriptor_hash(ev.name, ev.fields)
            descs[(ev.name, h)] = (ev.name, ev.fields)
        elif ev.kind == "REC":
            if not isinstance(ev.ident, tuple):
                raise FormatError("writer emitted an unversioned identifier %r" % (ev.ident,))
            models.append(record_model_from_wire(ev.ident, ev.values, descs))
        elif ev.kind == "GROUPED":
            models.append(
                ("grouped", ev.name, tuple(record_model_from_wire(i, v, descs) for i, v in ev.members))
            )
    return events, models


# ---------------------------------------------------------------------------------------------
# implementation object -> model (by declared type); /verif code, reads only public attributes


def value_model(tname, x):
    import pathlib

    if tname.endswith("[]"):
        if x is None:
            return ("none",)
        return ("list", tuple(value_model(tname[:-2], e) for e in x))
    if x is None:
        return ("none",)
    if tname == "boolean":
        return ("bool", bool(x))
    if tname in ("varint", "filesize", "unix_file_mode", "uint16", "uint32", "net.tcp.Port", "net.udp.Port"):
        return ("int", int(x))
    if tname == "float":
        return ("float", struct.pack(">d", x))
    if tname in ("string", "wstring", "uri"):
        return ("str", str.encode(x, "utf-8", "surrogatepass"))
    if tname == "bytes":
        return ("bytes", bytes(x))
    if tname == "datetime":
        return dt_model(x)
    if tname == "digest":
        return ("digest", x.md5, x.sha1, x.sha256)
    if tname == "path":
        return ("path", "windows" if isinstance(x, pathlib.PureWindowsPath) else "posix", str(x))
    if tname == "command":
        flavour = "windows" if type(x).__name__.startswith("windows") else "posix"
        if x.executable is None:
            return ("command", flavour, None, None)
        return ("command", flavour, str(x.executable), tuple(x.args))
    if tname in ("net.ipaddress", "net.IPAddress"):
        return ("ip", x.val.version, int(x.val))
    if tname in ("net.ipnetwork", "net.IPNetwork"):
        return ("net", x.val.version, int(x.val.network_address), x.val.prefixlen)
    if tname == "net.ipv4.Address":
        return ("ip4", int(x.val))
    if tname == "stringlist":
        return ("list", tuple(("str", str.encode(e, "utf-8", "surrogatepass")) for e in x))
    if tname == "dictlist":
        return ("list", tuple(loose_model(e) for e in x))
    if tname == "dynamic":
        return loose_model(x)
    if tname == "record":
        return record_model(x)
    raise KeyError(tname)


def loose_model(x):
    import pathlib

    if x is None:
        return ("none",)
    if isinstance(x, bool) or type(x).__name__ == "boolean":
        return ("bool", bool(x))
    if isinstance(x, _d.datetime):
        return dt_model(x)
    if isinstance(x, int):
        return ("int", int(x))
    if isinstance(x, float):
        return ("float", struct.pack(">d", x))
    if isinstance(x, str):
        return ("str", str.encode(x, "utf-8", "surrogatepass"))
    if isinstance(x, (bytes, bytearray)):
        return ("bytes", bytes(x))
    if isinstance(x, pathlib.PurePath):
        return ("path", "windows" if isinstance(x, pathlib.PureWindowsPath) else "posix", str(x))
    if isinstance(x, (list, tuple)):
        return ("list", tuple(loose_model(e) for e in x))
    if isinstance(x, dict):
        return ("dict", tuple(sorted((loose_model(k), loose_model(v)) for k, v in x.items())))
    raise TypeError("loose_model: %r" % (type(x),))


def record_model(rec):
    if hasattr(rec, "records") and hasattr(rec, "fieldname_to_record"):
        return ("grouped", rec.name, tuple(record_model(r) for r in rec.records))
    fields = tuple(tuple(f) for f in rec._desc.get_field_tuples())
    fm = tuple(value_model(t, getattr(rec, n)) for t, n in fields)
    meta = (
        value_model("string", rec._source),
        value_model("string", rec._classification),
        value_model("datetime", rec._generated),
        value_model("varint", rec._version),
    )
    return ("record", rec._desc.name, fields, fm, meta)


# ---------------------------------------------------------------------------------------------
# model -> wire (reference encoder), with format-permitted variation


def _int_wire(n, w):
    if -(2**63) <= n < 2**64:
        return n
    mag = abs(n)
    return ext14(T_VARINT, [n < 0, mag.to_bytes((mag.bit_length() + 7) // 8, "big")], w)


def _dt_wire(m, w):
    _, Y, Mo, D, h, mi, s, us, offus = m
    if offus == 0 and w.next() % 2 == 0:
        return ext14(T_DT, [Y, Mo, D, h, mi, s, us], w)
    tz = _d.timezone(_d.timedelta(microseconds=offus))
    return ext14(T_DT, [_d.datetime(Y, Mo, D, h, mi, s, us, tzinfo=tz).isoformat()], w)


def _loose_wire(m, w):
    k = m[0]
    if k == "none":
        return None
    if k == "bool":
        return m[1]
    if k == "int":
        return _int_wire(m[1], w)
    if k == "float":
        return struct.unpack(">d", m[1])[0]
    if k == "str":
        return m[1].decode("utf-8", "surrogatepass")
    if k == "bytes":
        return m[1]
    if k == "dt":
        return _dt_wire(m, w)
    if k == "list":
        return [_loose_wire(x, w) for x in m[1]]
    if k == "dict":
        return {_loose_wire(a, w): _loose_wire(b, w) for a, b in m[1]}
    raise KeyError(k)


def _f32_exact(f):
    if f != f:
        return False
    try:
        return struct.unpack(">f", struct.pack(">f", f))[0] == f
    except OverflowError:
        return False


def model_to_wire(tname, m, w, variant=None):
    if m[0] == "none":
        return None
    if tname.endswith("[]"):
        return [model_to_wire(tname[:-2], x, w) for x in m[1]]
    if tname == "boolean":
        return m[1]
    if tname in ("varint", "filesize", "unix_file_mode", "uint16", "uint32", "net.tcp.Port", "net.udp.Port"):
        return _int_wire(m[1], w)
    if tname == "float":
        f = struct.unpack(">d", m[1])[0]
        if _f32_exact(f) and w.next() % 3 == 2:
            return F32(f)
        return f
    if tname in ("string", "wstring", "uri"):
        return m[1].decode("utf-8", "surrogatepass")
    if tname == "bytes":
        return m[1]
    if tname == "datetime":
        return _dt_wire(m, w)
    if tname == "digest":
        return [None if x is None else bytes.fromhex(x) for x in m[1:]]
    if tname == "path":
        return [m[2], 1 if m[1] == "windows" else 0]
    if tname == "command":
        t = 1 if m[1] == "windows" else 0
        if m[2] is None:
            return [None, t]
        return [[m[2], list(m[3])], t]
    if tname in ("net.ipaddress", "net.IPAddress"):
        if m[1] == 6 and m[2] < 2**32:
            return str(_ip.IPv6Address(m[2]))
        return _int_wire(m[2], w)
    if tname in ("net.ipnetwork", "net.IPNetwork"):
        cls = _ip.IPv4Network if m[1] == 4 else _ip.IPv6Network
        return cls((m[2], m[3])).compressed
    if tname == "net.ipv4.Address":
        return m[1]
    if tname == "stringlist":
        return [x[1].decode("utf-8", "surrogatepass") for x in m[1]]
    if tname == "dictlist":
        return [_loose_wire(x, w) for x in m[1]]
    if tname == "dynamic":
        return _loose_wire(m, w)
    if tname == "record":
        return record_to_ext(m, w)
    raise KeyError(tname)


def record_values_wire(m, w, variant=None):
    _, name, fields, fm, meta = m
    vals = [model_to_wire(t, x, w) for (t, _), x in zip(fields, fm)]
    src, cls, gen, ver = meta
    res = [model_to_wire("string", src, w), model_to_wire("string", cls, w), model_to_wire("datetime", gen, w)]
    if variant == "no-version":
        return vals + res
    if variant == "extra-reserved-1":
        res.append("future-reserved")
    if variant == "extra-reserved-2":
        res += [None, 12345]
    return vals + res + [model_to_wire("varint", ver, w)]


def record_ident_wire(m, variant=None, bin_names=False):
    _, name, fields, _, _ = m
    wname = name.encode("utf-8") if bin_names else name
    if variant == "bare-name":
        return wname
    return [wname, descriptor_hash(name, fields)]


def record_to_ext(m, w, variant=None, bin_names=False):
    if m[0] == "grouped":
        return ext14(T_GROUPED, [m[1], [[record_ident_wire(x, None, bin_names), record_values_wire(x, w)] for x in m[2]]], w)
    return ext14(T_RECORD, [record_ident_wire(m, variant, bin_names), record_values_wire(m, w, variant)], w)


def descriptor_to_ext(name, fields, w, bin_names=False):
    if bin_names:
        # streams written by the Python 2 era releases carry names as msgpack raw/bin values
        return ext14(T_DESC, [name.encode("utf-8"), [[t.encode("utf-8"), n.encode("utf-8")] for t, n in fields]], w)
    return ext14(T_DESC, [name, [[t, n] for t, n in fields]], w)


def model_descriptors(m, out):
    """All (name, fields) used by a model, nested first (so that DESC precedes use)."""
    if m[0] == "grouped":
        for x in m[2]:
            model_descriptors(x, out)
        return
    if m[0] != "record":
        return
    _, name, fields, fm, _ = m

    def walk(x):
        if isinstance(x, tuple) and x and x[0] in ("record", "grouped"):
            model_descriptors(x, out)
        elif isinstance(x, tuple) and x and x[0] == "list":
            for e in x[1]:
                walk(e)

    for x in fm:
        walk(x)
    if (name, fields) not in out:
        out.append((name, fields))


def encode_stream(models, widths=None, variants=None, repeat_desc_at=(), repeat_header_at=(), bin_names=False):
    """Reference-encode models into a conforming stream.

    variants: per-record compatibility variant (None | 'no-version' | 'extra-reserved-1' |
    'extra-reserved-2' | 'bare-name'), applied to plain records only."""
    w = Widths(widths)
    out = [HEADER_FRAME]
    emitted = []
    current = {}  # identifier -> the definition announced last under it
    for i, m in enumerate(models):
        need = []
        model_descriptors(m, need)
        for d in need:
            ident = (d[0], descriptor_hash(d[0], d[1]))
            if d not in emitted or current.get(ident) != d:
                # first use - or another definition has been announced under the same identifier since (identifiers
                # are not injective): the definition in force for an identifier is the one announced last
                if d not in emitted:
                    emitted.append(d)
                current[ident] = d
                out.append(frame(pack(descriptor_to_ext(d[0], d[1], w, bin_names), w)))
        if i in repeat_desc_at and emitted:
            d = emitted[i % len(emitted)]
            out.append(frame(pack(descriptor_to_ext(d[0], d[1], w, bin_names), w)))
        if i in repeat_header_at:
            out.append(HEADER_FRAME)
        variant = variants[i] if variants and m[0] == "record" else None
        out.append(frame(pack(record_to_ext(m, w, variant, bin_names), w)))
    return b"".join(out)
