"""Selector expression grammar (typed, total by construction) + independent reference evaluator.

Expressions are generated as source text over one fixed record shape (SEL_FIELDS); every generated
sub-expression is defined on every generated record: division/modulo only by positive literals,
ordering only between operands of one non-None sort, `in` only with a container or string on the
right.  The reference evaluator is Python's own eval over the RAW record (no WrappedRecord), with the
helper functions and the Type matcher re-implemented here from their docstrings.
"""
import datetime as _d
import re

from hypothesis import strategies as st

GEN = _d.datetime(2022, 2, 3, 4, 5, 6, 7, tzinfo=_d.timezone.utc)

SEL_FIELDS = [
    ("string", "s"),
    ("string", "s2"),
    ("string", "opt"),      # may be None
    ("varint", "n"),
    ("varint", "m"),
    ("float", "f"),
    ("boolean", "b"),
    ("stringlist", "sl"),
    ("varint[]", "ns"),
    ("net.ipaddress", "ip"),
    ("uri", "u"),
    ("filesize", "size"),
    ("path", "p"),
    ("record", "rec"),
    ("record[]", "recs"),
    ("varint", "x__n"),     # a double underscore INSIDE a name is an ordinary field name (normalize_fieldname makes such)
]
INNER_FIELDS = [("string", "s"), ("varint", "n"), ("string", "tag")]

WORDS = ["", "a", "A", "ab", "Ab", "hello", "Hello World", "foo bar", "x", "10.0.0.1", "é", "a.b", "FOO"]
_words = st.sampled_from(WORDS)
_small = st.integers(0, 12)


@st.composite
def inner_values(draw):
    return {"s": draw(_words), "n": draw(_small), "tag": draw(_words)}


@st.composite
def record_values(draw):
    return {
        "s": draw(_words),
        "s2": draw(_words),
        "opt": draw(st.one_of(st.none(), _words)),
        "n": draw(_small),
        "m": draw(st.integers(0, 300)),
        "f": draw(st.sampled_from([0.0, 0.5, 1.0, 2.5, 7.0, 12.0])),
        "b": draw(st.booleans()),
        "sl": draw(st.lists(_words, max_size=3)),
        "ns": draw(st.lists(_small, max_size=4)),
        "ip": draw(st.sampled_from(["10.0.0.1", "10.1.2.3", "192.168.1.1", "::1", "2001:db8::1"])),
        "u": draw(st.sampled_from(["http://example.com/a/b.txt", "https://foo.bar/x", "ftp://h/", "a"])),
        "size": draw(st.sampled_from([0, 1, 1024, 5000])),
        "p": draw(st.sampled_from(["/tmp/x", "a/b", "/etc/passwd", ""])),
        "rec": draw(st.one_of(st.none(), inner_values())),
        "recs": draw(st.lists(inner_values(), max_size=2)),
        "x__n": draw(_small),
        "name": draw(st.sampled_from(["sel/rec", "other/type"])),
        # an older / newer generation of the same record type: same name, different field set
        "variant": draw(st.sampled_from([None, None, None, "fewer", "more"])),
        # the reserved metadata fields are fields like any other for a selector
        "src": draw(st.sampled_from([None, None, "a", "hello", "x"])),
        "cls": draw(st.sampled_from([None, None, "x", "FOO"])),
    }


def build_record(vals):
    from flow.record import RecordDescriptor

    inner = RecordDescriptor("sel/inner", INNER_FIELDS)

    def mk(v):
        return inner(v["s"], v["n"], v["tag"], _generated=GEN)

    fields = list(SEL_FIELDS)
    variant = vals.get("variant")
    kw = {k: v for k, v in vals.items() if k not in ("rec", "recs", "name", "variant", "src", "cls")}
    kw["_source"], kw["_classification"] = vals.get("src"), vals.get("cls")
    kw["rec"] = None if vals["rec"] is None else mk(vals["rec"])
    kw["recs"] = [mk(v) for v in vals["recs"]]
    if variant == "fewer":
        drop = ("s2", "m", "sl", "size")
        fields = [f for f in fields if f[1] not in drop]
        for k in drop:
            kw.pop(k, None)
    elif variant == "more":
        fields = [("string", "s0"), ("varint", "n0")] + fields + [("uri", "u2")]
        kw.update({"s0": vals["s2"], "n0": vals["m"], "u2": vals["u"]})
    desc = RecordDescriptor(vals.get("name", "sel/rec"), fields)
    return desc(_generated=GEN, **kw)


# ---------------------------------------------------------------------------------------------
# grammar.  Each generator function returns source text.  `env` maps sort -> available loop variables.

CMP = ["==", "!=", "<", "<=", ">", ">="]
STR_FIELDS = ["s", "s2", "u"]


class G:
    """Recursive expression generator driven by hypothesis' draw."""

    def __init__(self, draw, max_depth, features):
        self.draw = draw
        self.max_depth = max_depth
        self.features = features  # set of construct labels used (filled)
        self.nvars = 0

    def pick(self, options):
        return self.draw(st.sampled_from(options))

    def i(self, lo, hi):
        return self.draw(st.integers(lo, hi))

    def use(self, label):
        self.features.add(label)

    # ---- int
    def int_(self, d, env):
        opts = ["lit", "field"]
        if env.get("int"):
            opts += ["var", "var"]
        if d < self.max_depth:
            opts += ["add", "mul", "mod", "and", "or", "nested"]
        k = self.pick(opts)
        if k == "lit":
            return str(self.i(0, 12))
        if k == "field":
            return self.pick(["r.n", "r.m", "r.size", "r.n", "r.m", "r.size", "r.x__n"])
        if k == "var":
            return self.pick(env["int"])
        if k == "nested":
            self.use("attr:nested")
            # undefined (AttributeError in Python) when r.rec is None: such cases are skipped by the oracle
            return "r.rec.n"
        a, b = self.int_(d + 1, env), self.int_(d + 1, env)
        if k == "add":
            self.use("binop:+")
            return "(%s + %s)" % (a, b)
        if k == "mul":
            self.use("binop:*")
            return "(%s * %s)" % (a, b)
        if k == "mod":
            self.use("binop:%")
            return "(%s %% %d)" % (a, self.i(1, 7))
        if k == "and":
            self.use("binop:&")
            return "(%s & %s)" % (a, b)
        self.use("binop:|")
        return "(%s | %s)" % (a, b)

    def num(self, d, env):
        k = self.pick(["int", "int", "float", "div"] if d < self.max_depth else ["int", "float"])
        if k == "int":
            return self.int_(d, env)
        if k == "float":
            return self.pick(["r.f", "0.5", "2.5", "7.0"])
        self.use("binop:/")
        return "(%s / %d)" % (self.int_(d + 1, env), self.i(1, 5))

    # ---- str
    def strlit(self):
        return repr(self.pick(WORDS))

    def str_(self, d, env):
        opts = ["lit", "field", "field"]
        if env.get("str"):
            opts += ["var", "var", "fnvar", "fnvar"]
        if d < self.max_depth:
            opts += ["lower", "upper", "concat", "name", "str", "repr", "get_type"] * 3 + ["ctor", "litcall", "litcall"]
        k = self.pick(opts)
        if k == "lit":
            return self.strlit()
        if k == "litcall":
            # a call whose argument is a literal; the literals are pairwise EQUAL in Python (1 == 1.0 == True) but of
            # different types, so the results differ: str(1), str(1.0), str(True) within one process
            self.use("call-on-literal")
            return "%s(%s)" % (self.pick(["str", "repr", "get_type", "str"]), self.pick(EQUAL_LITERALS))
        if k == "field":
            return "r." + self.pick(STR_FIELDS)
        if k == "var":
            return self.pick(env["str"])
        if k == "fnvar":
            # a whitelisted call whose only argument is a loop variable (its value changes per element and record)
            self.use("call-on-loop-variable")
            fn = self.pick(["lower", "upper", "str", "string", "lower"])
            if fn == "string":
                self.use("ctor:string")
            return "%s(%s)" % (fn, self.pick(env["str"]))
        if k == "lower":
            self.use("helper:lower")
            return "lower(%s)" % self.str_(d + 1, env)
        if k == "upper":
            self.use("helper:upper")
            return "upper(%s)" % self.str_(d + 1, env)
        if k == "concat":
            self.use("binop:+str")
            return "(%s + %s)" % (self.str_(d + 1, env), self.str_(d + 1, env))
        if k == "name":
            self.use("helper:name")
            return "name(r)"
        if k == "str":
            self.use("func:str")
            return "str(%s)" % self.pick(["r.n", "r.ip", "r.s", "r.b", self.int_(d + 1, env)])
        if k == "repr":
            self.use("func:repr")
            return "repr(%s)" % self.pick(["r.n", "r.s", "r.ip"])
        if k == "get_type":
            self.use("helper:get_type")
            return "get_type(%s)" % self.pick(["r.s", "r.n", "r.ip", "r.sl"])
        self.use("ctor:string")
        return "string(%s)" % self.strlit()

    def strlist(self, d, env):
        k = self.pick(["list", "tuple", "field", "names"])
        if k == "field":
            return "r.sl"
        if k == "names":
            self.use("helper:names")
            return "names(r)"
        items = [self.str_(d + 1, env) for _ in range(self.i(0, 3))]
        if k == "list":
            self.use("literal:list")
            return "[%s]" % ", ".join(items)
        self.use("literal:tuple")
        return "(%s)" % "".join(x + ", " for x in items) if items else "()"

    def intlist(self, d, env):
        k = self.pick(["list", "tuple", "field"])
        if k == "field":
            return "r.ns"
        items = [self.int_(d + 1, env) for _ in range(self.i(0, 3))]
        if k == "list":
            self.use("literal:list")
            return "[%s]" % ", ".join(items)
        self.use("literal:tuple")
        return "(%s)" % "".join(x + ", " for x in items) if items else "()"

    def fieldnames(self):
        n = self.i(1, 3)
        return "[%s]" % ", ".join(repr(self.pick(STR_FIELDS)) for _ in range(n))

    def strlits(self):
        return "[%s]" % ", ".join(self.strlit() for _ in range(self.i(1, 2)))

    def newvar(self, env=None):
        # sibling generator expressions often reuse a loop variable name (x, y); never shadow an enclosing one
        bound = {v for vs in (env or {}).values() for v in vs}
        if not bound and self.pick([0, 1, 1]):
            # top-level (sibling) generator expressions reuse x / y / z; nested ones always get a fresh name, because
            # re-binding a name that an enclosing or later clause uses is a documented refusal of the interpreted engine
            # (loop variables may be spelled like field types - path, uri, ... - which are only names there)
            return self.pick(["x", "y", "z", "x", "y", "path", "uri", "varint", "digest"])
        self.nvars += 1
        return "v%d" % self.nvars

    # ---- bool
    def bool_(self, d, env):
        leaf = ["cmpnum", "cmpstr", "instr", "inlist", "const", "field", "ip", "opt", "seqcmp", "meta"]
        if d < self.max_depth:
            opts = leaf + ["and", "or", "not", "chain", "helper", "helper", "gen", "gen", "type", "type", "notin"]
        else:
            opts = leaf
        k = self.pick(opts)
        if k == "const":
            return self.pick(["True", "False"])
        if k == "field":
            return "r.b"
        if k == "cmpnum":
            op = self.pick(CMP)
            self.use("cmp:" + op)
            return "(%s %s %s)" % (self.num(d + 1, env), op, self.num(d + 1, env))
        if k == "cmpstr":
            op = self.pick(CMP)
            self.use("cmp:" + op)
            return "(%s %s %s)" % (self.str_(d + 1, env), op, self.str_(d + 1, env))
        if k == "chain":
            ops = [self.pick(CMP) for _ in range(self.i(2, 3))]
            for op in ops:
                self.use("chain:" + op)
            if self.pick([0, 1]):
                terms = [self.num(d + 1, env) for _ in range(len(ops) + 1)]
            else:
                terms = [self.str_(d + 1, env) for _ in range(len(ops) + 1)]
            out = terms[0]
            for op, t in zip(ops, terms[1:]):
                out += " %s %s" % (op, t)
            return "(%s)" % out
        if k == "instr":
            self.use("cmp:in")
            return "(%s in %s)" % (self.str_(d + 1, env), self.str_(d + 1, env))
        if k == "notin":
            self.use("cmp:not in")
            if self.pick([0, 1]):
                return "(%s not in %s)" % (self.str_(d + 1, env), self.pick([self.str_(d + 1, env), self.strlist(d + 1, env)]))
            return "(%s not in %s)" % (self.int_(d + 1, env), self.intlist(d + 1, env))
        if k == "inlist":
            self.use("cmp:in")
            if self.pick([0, 1]):
                return "(%s in %s)" % (self.str_(d + 1, env), self.strlist(d + 1, env))
            return "(%s in %s)" % (self.int_(d + 1, env), self.intlist(d + 1, env))
        if k == "seqcmp":
            # a tuple is not a list: (1, 2) == [1, 2] is False, (1, 2) in [[1, 2]] is False
            self.use("seq:cmp")
            mk = self.intlist if self.pick([0, 1]) else self.strlist
            a, b = mk(d + 1, env), mk(d + 1, env)
            form = self.pick(["==", "!=", "in-list-of"])
            if form == "in-list-of":
                return "(%s in [%s, %s])" % (a, b, mk(d + 1, env))
            return "(%s %s %s)" % (a, form, b)
        if k == "meta":
            self.use("reserved-field")
            f = self.pick(["r._source", "r._classification"])
            return self.pick(["(%s == %s)" % (f, self.pick(["'a'", "'x'", "'hello'", "'FOO'"])), "(%s != None)" % f,
                              "(%s == None)" % f, "(%s in [None, 'x'])" % f, "(%s != %s)" % (f, self.strlit()),
                              "(%s == r.s)" % f, "(r._source != r._classification)", "(r._version == 1)"])
        if k == "opt":
            self.use("none-valued-field")
            return self.pick(["(r.opt == None)", "(r.opt != %s)" % self.strlit(), "(r.opt in [None, %s])" % self.strlit(),
                              "(r.opt == %s)" % self.strlit()])
        if k == "ip" and self.i(0, 5) == 0:
            # membership in LONG literal lists / tuples (8 ... 100 items): still an equality scan, whatever the length -
            # for values whose == is looser than their hash (addresses and paths against text, floats against ints)
            self.use("membership:long-literal-list")
            n = self.pick([8, 9, 16, 33, 100])
            fld, pool = self.pick([
                ("r.ip", ["'10.0.0.%d'" % j for j in range(1, 120)] + ["'10.1.2.3'", "'::1'", "'2001:db8::1'"]),
                ("r.p", ["'/tmp/f%d'" % j for j in range(120)] + ["'/tmp/x'", "'a/b'"]),
                ("r.u", ["'http://h/%d'" % j for j in range(120)] + ["'http://example.com/a/b.txt'", "'https://foo.bar/x'"]),
                ("r.f", [str(j) for j in range(120)] + ["0.5", "2.5"]),
                ("r.n", [str(j) for j in range(120)] + ["1.0", "2.0", "True"]),
                ("r.s", ["'w%d'" % j for j in range(120)] + [repr(w) for w in WORDS]),
            ])
            items = pool[:n - 3] + [self.pick(pool[-3:] if len(pool) > 122 else pool[-2:]) for _ in range(3)]
            k0 = self.i(0, len(items) - 1)
            items = items[k0:] + items[:k0]
            op = self.pick(["in", "in", "not in"])
            lb, rb = self.pick([("[", "]"), ("[", "]"), ("(", ")")])
            return "(%s %s %s%s%s)" % (fld, op, lb, ", ".join(items), rb)
        if k == "ip":
            self.use("ctor:net")
            return self.pick([
                "(r.ip in net.ipnetwork('10.0.0.0/8'))",
                "(r.ip == net.ipaddress('10.0.0.1'))",
                "(r.ip not in net.ipnetwork('10.1.0.0/16'))",
                "(r.ip in net.ipnetwork('2001:db8::/32'))",
                "(r.ip == '::1')",
                "(r.ip != '10.1.2.3')",
                # membership in a literal list is decided by ==, not by hash
                "(r.ip in ['10.0.0.1', '10.1.2.3'])",
                "(r.ip not in ['::1', '192.168.1.1'])",
                "(r.ip in ('2001:db8::1', '::1'))",
                "(r.p in ['/tmp/x', 'a/b'])",
                "(r.p not in ['/etc/passwd'])",
                "(r.p == '/tmp/x')",
                "(r.u in ['https://foo.bar/x', 'a'])",
                "(r.sl in [['a'], []])",
                # attribute access on field values
                "(r.u.scheme == 'http')", "(r.u.hostname in ['example.com', 'foo.bar'])", "(r.u.filename == 'b.txt')",
                "(r.u.scheme != r.s)", "(r.p.name == 'x')", "(r.p.parent == '/tmp')", "(r.p.suffix == '')",
                "(r.ip.val.version == 4)", "(r.u.netloc == lower(r.u.netloc))",
                # nested records are values too: they compare by their fields
                "(r.rec == r.rec)", "(r.rec != r.rec)", "(r.rec in r.recs)", "(r.rec not in r.recs)", "([r.rec] == [r.rec])",
                "any((e == r.rec) for e in r.recs)", "(r.recs == r.recs)", "(r.rec in [r.rec, None])", "(r.rec == None)",
            ])
        if k == "and":
            self.use("boolop:and")
            return "(%s)" % " and ".join(self.bool_(d + 1, env) for _ in range(self.i(2, 3)))
        if k == "or":
            self.use("boolop:or")
            return "(%s)" % " or ".join(self.bool_(d + 1, env) for _ in range(self.i(2, 3)))
        if k == "not":
            self.use("boolop:not")
            return "(not %s)" % self.bool_(d + 1, env)
        if k == "helper":
            h = self.pick(["has_field", "field_contains", "field_equals", "field_regex", "name", "names"])
            self.use("helper:" + h)
            if h == "has_field":
                return "has_field(r, %r)" % self.pick(["s", "n", "nope", "rec", "_source"])
            if h == "field_contains":
                extra = self.pick(["", ", nocase=False", ", word_boundary=True", ", nocase=False, word_boundary=True",
                                   ", nocase=True"])
                return "field_contains(r, %s, %s%s)" % (self.fieldnames(), self.strlits(), extra)
            if h == "field_equals":
                extra = self.pick(["", ", nocase=False", ", nocase=True"])
                return "field_equals(r, %s, %s%s)" % (self.fieldnames(), self.strlits(), extra)
            if h == "field_regex":
                rx = self.pick(["^a", "o$", "[A-Z]", "l+", "^$", "foo|bar", r"\\d+", "."])
                return "field_regex(r, %s, '%s')" % (self.fieldnames(), rx)
            if h == "name":
                return "(name(r) %s %s)" % (self.pick(["==", "!="]), self.pick(["'sel/rec'", "'other/type'", "'x'"]))
            return "(%s in names(r))" % self.pick(["'sel/rec'", "'other/type'", "'x'"])
        if k == "type" and self.i(0, 5) == 0:
            # the matcher on the LEFT of a membership test: `Type.x in L` is "some field of that type is in L", and
            # `not in` is its negation - that is what Python makes of it
            self.use("Type")
            self.use("Type:left-of-membership")
            op = self.pick(["in", "not in"])
            if self.i(0, 1):
                items = [repr(w) for w in WORDS]
                k0 = self.i(0, len(items) - 1)
                items = (items[k0:] + items[:k0])[: self.i(1, 3)]
                lb, rb = self.pick([("[", "]"), ("(", ",)")])
                return "(Type.string %s %s%s%s)" % (op, lb, ", ".join(items), rb)
            return "(Type.varint %s [%s])" % (op, ", ".join(str(self.i(0, 4)) for _ in range(self.i(1, 3))))
        if k == "type":
            self.use("Type")
            t = self.pick(["string", "varint", "uri.filename", "uri.hostname", "stringlist", "filesize", "float",
                           "net.ipaddress"])
            if t == "net.ipaddress":
                self.use("Type:dotted-path")
                return "(Type.net.ipaddress %s %s)" % (self.pick(["==", "!="]), self.pick(["'10.0.0.1'", "'::1'", "'8.8.8.8'"]))
            if t in ("string",):
                form = self.pick(["eq", "ne", "contains", "lt", "fieldlist"])
                if form == "contains":
                    self.use("Type:contains")
                    return "(%s in Type.string)" % self.strlit()
                if form == "fieldlist":
                    self.use("Type:as-fieldlist")
                    return "field_equals(r, Type.uri, %s)" % self.strlits()
                op = {"eq": "==", "ne": "!=", "lt": self.pick(["<", "<=", ">", ">="])}[form]
                self.use("Type:" + op)
                # string fields include the None-able `opt`: ordering with None is undefined -> eq/ne only there
                if form == "lt":
                    return "(Type.uri %s %s)" % (op, self.strlit())
                return "(Type.string %s %s)" % (op, self.strlit())
            if t in ("varint", "filesize", "float"):
                op = self.pick(CMP)
                self.use("Type:" + op)
                return "(Type.%s %s %s)" % (t, op, self.num(d + 1, env))
            if t.startswith("uri."):
                self.use("Type:attr")
                return "(Type.%s %s %s)" % (t, self.pick(["==", "!="]), self.pick(["'b.txt'", "'example.com'", "'x'", "None"]))
            self.use("Type:==")
            return "(Type.stringlist == %s)" % self.strlist(d + 1, env)
        if k == "gen" and self.i(0, 4) == 0:
            # a field-type CONSTRUCTOR applied to the loop variable: its value differs per element (and the elements
            # come in an order of their own), so it is built anew every time round
            fn = self.pick(["any", "all"])
            self.use("gen:" + fn)
            self.use("ctor-on-loop-variable")
            v = self.newvar(env)
            form = self.pick(["ip-eq", "ip-in-net", "ip-ne"])  # (bare constructor names are a listed finding of the compiled engine)
            if form == "str-eq":
                items = [repr(w) for w in WORDS]
                body = "(string(%s) %s %s)" % (v, self.pick(["==", "!="]), self.pick(["r.s", "r.s2", self.strlit()]))
            elif form == "ip-in-net":
                items = ["'10.1.0.0/16'", "'10.0.0.0/8'", "'2001:db8::/32'", "'192.168.0.0/16'", "'::/0'"]
                body = "(r.ip %s net.ipnetwork(%s))" % (self.pick(["in", "not in"]), v)
            else:
                items = ["'10.0.0.1'", "'10.1.2.3'", "'::1'", "'2001:db8::1'", "'192.168.1.1'"]
                body = "(net.ipaddress(%s) %s r.ip)" % (v, "==" if form == "ip-eq" else "!=")
            k0 = self.i(0, len(items) - 1)
            items = (items[k0:] + items[:k0])[: self.i(2, len(items))]
            return "%s(%s for %s in [%s])" % (fn, body, v, ", ".join(items))
        if k == "gen":
            fn = self.pick(["any", "all"])
            self.use("gen:" + fn)
            v = self.newvar(env)
            sort = self.pick(["int", "str"])
            it = self.intlist(d + 1, env) if sort == "int" else self.pick(["r.sl", self.strlist(d + 1, env)])
            env2 = dict(env)
            env2[sort] = list(env.get(sort, [])) + [v]
            clauses = "for %s in %s" % (v, it)
            if self.pick([0, 0, 1]):
                self.use("gen:if")
                clauses += " if %s" % self.bool_(d + 2, env2)
            if self.pick([0, 0, 0, 1]):
                self.use("gen:two-for")
                self.nvars += 1
                v2 = "v%d" % self.nvars
                sort2 = self.pick(["int", "str"])
                it2 = self.intlist(d + 2, env2) if sort2 == "int" else "r.sl"
                env2 = dict(env2)
                env2[sort2] = list(env2.get(sort2, [])) + [v2]
                clauses += " for %s in %s" % (v2, it2)
                if self.pick([0, 1]):
                    self.use("gen:if")
                    clauses += " if %s" % self.bool_(d + 2, env2)
            if self.pick([0, 0, 1]):
                # the element test is a whitelisted call applied to the loop variable itself
                self.use("call-on-loop-variable")
                if sort == "str":
                    body = "(%s(%s) %s %s)" % (self.pick(["lower", "upper", "str"]), v, self.pick(["==", "!=", "in"]),
                                               self.pick([self.strlit(), "r.s", "lower(r.s2)"]))
                else:
                    body = "(str(%s) %s %s)" % (v, self.pick(["==", "!=", "in"]), self.pick(["'1'", "'10'", "str(r.n)"]))
                return "%s(%s %s)" % (fn, body, clauses)
            return "%s(%s %s)" % (fn, self.bool_(d + 1, env2), clauses)
        raise KeyError(k)


UNSUPPORTED = [
    ("binop:-", "((r.n - 1) == 4)"),
    ("binop:-", "((r.m - r.n) > 2)"),
    ("unary:-", "(-r.n < -3)"),
    ("unary:-", "(r.n > -1)"),
    ("unary:+", "(+r.n == 3)"),
    ("unary:~", "(~r.n == -4)"),
    ("binop://", "((r.m // 2) == 3)"),
    ("binop:**", "((r.n ** 2) == 9)"),
    ("binop:^", "((r.n ^ 1) == 2)"),
    ("binop:<<", "((r.n << 1) == 6)"),
    ("binop:>>", "((r.m >> 1) == 1)"),
    ("subscript", "(r.s[0:1] == 'a')"),
    ("subscript", "(r.sl[0] == 'a')" ),
    ("lambda", "((lambda q: q)(r.b))"),
    ("ifexp", "(True if r.b else False)"),
    ("ifexp", "((1 if r.b else 2) == 1)"),
    ("listcomp", "(len([q for q in r.ns]) == 2)"),
    ("listcomp", "([q for q in r.ns] == [1])"),
    ("setcomp", "({q for q in r.ns} == {1})"),
    ("dictdisp", "({'a': 1} == {'a': r.n})"),
    ("setdisp", "(r.n in {1, 2, 3})"),
    ("fstring", "(f'{r.n}' == '3')"),
    ("walrus", "((q := r.n) == 3)"),
    ("starred", "([*r.ns] == [1])"),
    ("method", "r.s.startswith('a')"),
    ("method", "(r.s.upper() == 'A')"),
    ("is", "(r.opt is None)"),
    ("isnot", "(r.opt is not None)"),
    ("matmul", "((r.n @ 2) == 1)"),
    ("bitnot", "((r.n & ~1) == 2)"),
    ("len", "(len(r.s) == 1)"),
    ("int", "(int(r.f) == 2)"),
]


@st.composite
def expressions(draw, max_depth=3):
    feats = set()
    g = G(draw, max_depth, feats)
    src = g.bool_(0, {})
    return {"src": src, "features": sorted(feats)}


@st.composite
def unsupported_expressions(draw):
    """A documented-language expression with one outside-language construct embedded."""
    label, frag = draw(st.sampled_from(UNSUPPORTED))
    feats = set()
    g = G(draw, 2, feats)
    other = g.bool_(1, {})
    form = draw(st.sampled_from(["{F}", "({F} and {O})", "({O} or {F})", "(not {F})", "any({F} for w1 in r.ns)"]))
    return {"src": form.format(F=frag, O=other), "features": sorted(feats | {"outside:" + label}), "outside": label}


# ---------------------------------------------------------------------------------------------
# reference evaluator


def ref_lower(s):
    return s.lower() if isinstance(s, str) else s


def ref_upper(s):
    return s.upper() if isinstance(s, str) else s


def ref_name(r):
    return r._desc.name if hasattr(r, "_desc") else "UnknownRecord"


def ref_names(r):
    if hasattr(r, "records") and hasattr(r, "fieldname_to_record"):
        return {x._desc.name for x in r.records}
    if hasattr(r, "_desc"):
        return {r._desc.name}
    return ["UnknownRecord"]


EQUAL_LITERALS = ["0", "1", "True", "False", "0.0", "1.0", "2", "2.0", "'1'", "'True'", "1.5", "(1 + 0)", "(1 / 1)"]


def ref_get_type(o):
    return str(type(o))


def ref_has_field(r, field):
    return field in [n for _, n in r._desc.get_field_tuples()]


_MISSING = object()


def ref_field_regex(r, fields, regex):
    pat = re.compile(regex)
    for f in fields:
        v = getattr(r, f, _MISSING)
        if v is _MISSING:
            continue
        if pat.search(v) is not None:
            return True
    return False


def ref_field_equals(r, fields, strings, nocase=True):
    strs = [ref_lower(s) for s in strings] if nocase else list(strings)
    for f in fields:
        v = getattr(r, f, _MISSING)
        if v is _MISSING:
            continue
        if nocase:
            v = ref_lower(v)
        if any(s == v for s in strs):
            return True
    return False


def ref_field_contains(r, fields, strings, nocase=True, word_boundary=False):
    strs = [ref_lower(s) for s in strings] if nocase else list(strings)
    for f in fields:
        v = getattr(r, f, _MISSING)
        if v is _MISSING:
            continue
        if nocase:
            v = ref_lower(v)
        for s in strs:
            if not word_boundary:
                if s in v:
                    return True
            else:
                if v is None:
                    if s is None:
                        return True
                    continue
                if not isinstance(v, str):
                    continue
                if re.search(r"\b" + re.escape(s) + r"\b", v) is not None:
                    return True
    return False


class RefType:
    def __init__(self, rec):
        self._rec = rec

    def __getattr__(self, attr):
        return RefTypeInst(self._rec, [attr], [])


_WL = None


def _whitelist():
    global _WL
    if _WL is None:
        from flow.record.whitelist import WHITELIST

        _WL = set(WHITELIST)
    return _WL


class RefTypeInst:
    def __init__(self, rec, parts, attrs):
        self._rec, self._parts, self._attrs = rec, parts, attrs

    def __getattr__(self, attr):
        if attr.startswith("_"):
            raise AttributeError(attr)
        if ".".join(self._parts) in _whitelist():
            return RefTypeInst(self._rec, self._parts, self._attrs + [attr])
        return RefTypeInst(self._rec, self._parts + [attr], [])

    def _tname(self):
        return ".".join(self._parts)

    def __iter__(self):
        return iter([n for t, n in self._rec._desc.get_field_tuples() if t == self._tname()])

    def _values(self, rec=None):
        rec = self._rec if rec is None else rec
        out = []
        for t, n in rec._desc.get_field_tuples():
            if t == self._tname():
                v = getattr(rec, n)
                ok = True
                for a in self._attrs:
                    if not hasattr(v, a):
                        ok = False
                        break
                    v = getattr(v, a)
                if ok:
                    out.append(v)
        for t, n in rec._desc.get_field_tuples():
            if t == "record":
                sub = getattr(rec, n)
                if sub is not None:
                    out.extend(self._values(sub))
        for t, n in rec._desc.get_field_tuples():
            if t == "record[]":
                for sub in getattr(rec, n) or []:
                    out.extend(self._values(sub))
        return out

    def _any(self, fn):
        for v in self._values():
            if fn(v):
                return True
        return False

    def __eq__(self, o):
        return self._any(lambda v: v == o)

    def __ne__(self, o):
        return self._any(lambda v: v != o)

    def __lt__(self, o):
        return self._any(lambda v: v < o)

    def __le__(self, o):
        return self._any(lambda v: v <= o)

    def __gt__(self, o):
        return self._any(lambda v: v > o)

    def __ge__(self, o):
        return self._any(lambda v: v >= o)

    def __contains__(self, o):
        return self._any(lambda v: o in v)

    __hash__ = None


def reference_namespace(rec):
    import flow.record.fieldtypes as ft
    from flow.record.fieldtypes import net

    ns = {
        "r": rec,
        "lower": ref_lower,
        "upper": ref_upper,
        "name": ref_name,
        "names": ref_names,
        "get_type": ref_get_type,
        "has_field": ref_has_field,
        "field_regex": ref_field_regex,
        "field_equals": ref_field_equals,
        "field_contains": ref_field_contains,
        "Type": RefType(rec),
        "net": net,
        "string": ft.string,
        "__builtins__": {"str": str, "repr": repr, "any": any, "all": all, "len": len, "int": int, "True": True,
                         "False": False, "None": None},
    }
    return ns


DROPPED_IN_FEWER = re.compile(r"\br\.(s2|m|sl|size)\b")


def touches_dropped_field(src, vals):
    """With the 'fewer' variant some fields do not exist: expressions that mention them have sub-expressions
    that are undefined in Python (AttributeError) even when short-circuiting hides it - that is C08's subject."""
    return vals.get("variant") == "fewer" and DROPPED_IN_FEWER.search(src) is not None


def reference_eval(src, rec):
    """Python truth value of the expression over the raw record (raises if undefined)."""
    return eval(compile(src, "<ref>", "eval"), reference_namespace(rec))
