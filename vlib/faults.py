"""Fault-injecting file objects and owned clocks (DESIGN 3.5)."""
import io


class InjectedFault(OSError):
    pass


class FaultyFile(io.RawIOBase):
    """In-memory 'disk' that records every write call; at call index `fail_at` keeps only the first
    `keep` bytes of that call and raises OSError (short write followed by failure). Fail-stop: every
    later write raises too (unless
    `transient`)."""

    def __init__(self, fail_at=None, keep=0, transient=False):
        super().__init__()
        self.transient = transient  # the device recovers: only the one call fails (ENOSPC-style), later calls work
        self.fault_offset = None
        self.fail_at = fail_at
        self.keep = keep
        self.calls = []  # sizes of write calls
        self.disk = bytearray()
        self.failed = False

    def writable(self):
        return True

    def readable(self):
        return False

    def seekable(self):
        return False

    def isatty(self):
        return False

    def write(self, b):
        b = bytes(b)
        if self.failed:
            raise InjectedFault("injected: device gone")
        idx = len(self.calls)
        self.calls.append(len(b))
        if self.fail_at is not None and idx == self.fail_at:
            self.disk += b[: self.keep]
            self.failed = not self.transient
            self.fault_offset = len(self.disk)
            raise InjectedFault("injected: write %d failed after %d bytes" % (idx, min(self.keep, len(b))))
        self.disk += b
        return len(b)

    def flush(self):
        return None

    def close(self):
        # keep the "disk" readable after close
        try:
            super().close()
        except Exception:
            pass

    def getvalue(self):
        return bytes(self.disk)
