"""KNOWN_FINDINGS.txt parsing (never written at run time).

Line formats:
  known: property=C08 sig=<signature> replay=<path relative to /verif> :: <what fails>
  fixed: property=C07 <commit> <what failed>
`fixed:` lines suppress nothing; their reproducers live in corpus/regress and must pass.
"""
import os
import re

VERIF = os.path.dirname(os.path.dirname(os.path.abspath(__file__)))
PATH = os.path.join(VERIF, "KNOWN_FINDINGS.txt")
_RE = re.compile(r"^known:\s+property=(\S+)\s+sig=(\S+)\s+replay=(\S+)\s+::\s*(.*)$")

_cache = None


def _load():
    global _cache
    if _cache is None:
        _cache = []
        if os.path.exists(PATH):
            with open(PATH) as f:
                for line in f:
                    m = _RE.match(line.strip())
                    if m:
                        _cache.append({"property": m.group(1), "sig": m.group(2), "replay": m.group(3),
                                       "text": m.group(4)})
    return _cache


def known_entries(prop_id):
    return [e for e in _load() if e["property"] == prop_id]


def known_sigs(prop_id):
    return {e["sig"] for e in known_entries(prop_id)}
