"""Deep canonical observation of field values and records (DESIGN 3.2).

observe(x) maps a value to nested tuples of primitives that record the concrete kind of the value:
class name, bit pattern, flavour, offset, order.  Two values are "identical" for the checks iff their
observations are equal.  Never uses the implementation's __eq__ on field types.
"""
import datetime as _d
import ipaddress as _ip
import pathlib
import struct


def _cls(x):
    return type(x).__name__


def obs_dt(x):
    off = x.utcoffset()
    offus = None if off is None else (off.days * 86400 + off.seconds) * 10**6 + off.microseconds
    return ("dt", x.year, x.month, x.day, x.hour, x.minute, x.second, x.microsecond, offus)


def observe(x, with_class=True):
    import flow.record as fr
    from flow.record import fieldtypes as ft
    from flow.record.fieldtypes.net import ip as ftip
    from flow.record.fieldtypes.net import ipv4 as ftip4

    c = _cls(x) if with_class else ""
    if x is None:
        return ("none",)
    if isinstance(x, fr.GroupedRecord):
        return ("grouped", x.name, tuple(observe(r) for r in x.records))
    if isinstance(x, fr.Record):
        d = x._desc
        return (
            "record",
            d.name,
            tuple(tuple(t) for t in d.get_field_tuples()),
            tuple((k, observe(getattr(x, k))) for k in x.__slots__),
        )
    if isinstance(x, bool):
        return ("bool", c, bool(x))
    if isinstance(x, ft.boolean):
        return ("boolean", c, int(x), x.value)
    if isinstance(x, _d.datetime):
        return (c,) + obs_dt(x)
    if isinstance(x, float):
        return ("float", c, struct.pack(">d", x))
    if isinstance(x, int):
        v = getattr(x, "value", None)
        return ("int", c, int(x), None if v is None else int(v))
    if isinstance(x, str):
        extra = ()
        return ("str", c, x.encode("utf-8", "surrogatepass")) + extra
    if isinstance(x, (bytes, bytearray)):
        return ("bytes", c, bytes(x))
    if isinstance(x, pathlib.PurePath):
        flavour = "windows" if isinstance(x, pathlib.PureWindowsPath) else "posix"
        return ("path", c, flavour, str(x), bool(getattr(x, "_empty_path", False)))
    if isinstance(x, ft.command):
        return ("command", c, observe(x.executable), None if x.args is None else tuple(x.args))
    if isinstance(x, ft.digest):
        return ("digest", c, x.md5, x.sha1, x.sha256)
    if isinstance(x, ftip.ipaddress):
        return ("ipaddress", c, x.val.version, int(x.val))
    if isinstance(x, ftip.ipnetwork):
        return ("ipnetwork", c, x.val.version, int(x.val.network_address), x.val.prefixlen)
    if isinstance(x, ftip4.address):
        return ("ipv4address", c, x.val)
    if isinstance(x, ftip4.subnet):
        return ("ipv4subnet", c, x.net, x.mask)
    if isinstance(x, (_ip.IPv4Address, _ip.IPv6Address)):
        return ("pyip", c, x.version, int(x))
    if isinstance(x, dict):
        return ("dict", tuple(sorted((observe(k), observe(v)) for k, v in x.items())))
    if isinstance(x, (list, tuple)):
        return ("list" if isinstance(x, list) else "tuple", c, tuple(observe(e) for e in x))
    return ("other", c, repr(x))


def observe_loose(x):
    """Observation without class names of containers (list vs tuple) -- for dict/list payloads that
    the format is allowed to return as tuple (msgpack use_list=False)."""
    if isinstance(x, dict):
        return ("dict", tuple(sorted((observe_loose(k), observe_loose(v)) for k, v in x.items())))
    if isinstance(x, (list, tuple)):
        return ("seq", tuple(observe_loose(e) for e in x))
    return observe(x, with_class=False)


def diff(a, b, path=""):
    """First difference between two observations, as text (for messages)."""
    if a == b:
        return None
    if isinstance(a, tuple) and isinstance(b, tuple):
        if len(a) != len(b):
            return "%s: length %d != %d: %r vs %r" % (path, len(a), len(b), _short(a), _short(b))
        for i, (x, y) in enumerate(zip(a, b)):
            d = diff(x, y, "%s/%s" % (path, x[0] if isinstance(x, tuple) and x and isinstance(x[0], str) else i))
            if d:
                return d
    return "%s: %r != %r" % (path, _short(a), _short(b))


def _short(x, n=200):
    s = repr(x)
    return s if len(s) <= n else s[:n] + "..."
