"""Worker for C13's display-independence part: runs in its own process (FLOW_RECORD_TZ / TZ are read
at import) and prints digests of everything that is stored, compared or written for a fixed,
seed-derived record set.  Only str()/repr() may depend on the display setting."""
import datetime as _d
import hashlib
import io
import json
import os
import sqlite3
import sys
import tempfile
from zoneinfo import ZoneInfo

VERIF = os.path.dirname(os.path.dirname(os.path.abspath(__file__)))
sys.path.insert(0, VERIF)
sys.path.insert(0, os.path.realpath(os.environ.get("VERIF_REPO", "/repo")))

UTC = _d.timezone.utc


def record_set(seed):
    """Deterministic datetimes across tz kinds (pure function of seed)."""
    out = []
    zones = [UTC, ZoneInfo("Europe/Amsterdam"), ZoneInfo("America/New_York"), _d.timezone(_d.timedelta(seconds=3600)),
             _d.timezone(_d.timedelta(seconds=-34200)), _d.timezone(_d.timedelta(seconds=86399)), None,
             ZoneInfo("Australia/Lord_Howe"), ZoneInfo("UTC")]
    walls = [(1971, 1, 1, 0, 0, 0, 0), (1969, 12, 31, 23, 59, 59, 999999), (2021, 10, 31, 2, 30, 0, 0),
             (2021, 3, 28, 2, 30, 0, 0), (2038, 1, 19, 3, 14, 8, 1), (1800, 6, 1, 12, 0, 0, 5), (9000, 1, 1, 1, 1, 1, 1),
             (100, 2, 3, 4, 5, 6, 7)]
    for i in range(24):
        h = hashlib.sha256(("%d/%d" % (seed, i)).encode()).digest()
        y = 1900 + int.from_bytes(h[:2], "big") % 200
        walls.append((y, 1 + h[2] % 12, 1 + h[3] % 28, h[4] % 24, h[5] % 60, h[6] % 60, int.from_bytes(h[7:10], "big") % 10**6))
    k = 0
    for w in walls:
        for fold in (0, 1):
            tz = zones[k % len(zones)]
            k += 1
            out.append(_d.datetime(*w, tzinfo=tz, fold=fold))
    return out


def main():
    seed = int(sys.argv[1])
    from flow.record import RecordDescriptor, RecordWriter
    from flow.record.adapter.jsonfile import JsonfileWriter
    from flow.record.stream import RecordStreamWriter

    import flow.record.fieldtypes as ft

    desc = RecordDescriptor("c13/t", [("datetime", "ts"), ("datetime[]", "tss"), ("string", "s")])
    gen = _d.datetime(2020, 1, 1, tzinfo=UTC)
    dts = record_set(seed)
    recs = [desc(d, [d, dts[(i + 1) % len(dts)]], "r%d" % i, _generated=gen) for i, d in enumerate(dts)]
    # epoch numbers and ISO text are instants too: they must not depend on the process time zone
    for i, e in enumerate([0, 1, 1521731723, 1521731723.5, -86400, 86399.999999, 4102444800, "2023-01-10T16:12:01",
                           "2023-01-10T16:12:01+02:00", "2023-01-10T16:12:01Z"]):
        recs.append(desc(e, [e], "e%d" % i, _generated=gen))
    res = {"display": repr(ft.DISPLAY_TZINFO), "n": len(recs)}

    class Keep(io.BytesIO):
        def close(self):
            pass

    fp = Keep()
    w = RecordStreamWriter(fp)
    for r in recs:
        w.write(r)
    w.flush()
    res["stream"] = hashlib.sha256(fp.getvalue()).hexdigest()

    def seen(rs, with_list=True):
        """What a reader hands back: wall clock fields and UTC offset of every timestamp (not its printed form)."""
        def t(d):
            return None if d is None else (d.year, d.month, d.day, d.hour, d.minute, d.second, d.microsecond,
                                           d.utcoffset().total_seconds() if d.utcoffset() is not None else "naive")
        out = [(t(r.ts), [t(x) for x in r.tss] if with_list else None, t(r._generated), str(r.s)) for r in rs]
        return hashlib.sha256(json.dumps(out).encode()).hexdigest()

    from flow.record import RecordReader
    from flow.record.stream import RecordStreamReader

    res["read-stream"] = seen(list(RecordStreamReader(io.BytesIO(fp.getvalue()))))

    class KeepS(io.StringIO):
        def close(self):
            pass

    sfp = KeepS()
    jw = JsonfileWriter(sfp)
    for r in recs:
        jw.write(r)
    jw.flush()
    res["json"] = hashlib.sha256(sfp.getvalue().encode()).hexdigest()
    from flow.record import JsonRecordPacker

    jp = JsonRecordPacker()
    back = [jp.unpack(line) for line in sfp.getvalue().splitlines() if line.strip()]
    res["read-json"] = seen([b for b in back if hasattr(b, "ts")])

    tmp = tempfile.mkdtemp(prefix="verif-c13-")
    try:
        sdesc = RecordDescriptor("c13/s", [("datetime", "ts"), ("string", "s")])
        for key, rs in (("sqlite", [sdesc(r.ts, r.s, _generated=gen) for r in recs]), ("sqlite-datetime-list", recs)):
            dbp = os.path.join(tmp, key + ".db")
            sw = RecordWriter("sqlite://" + dbp)
            for r in rs:
                sw.write(r)
            sw.flush()
            sw.close()
            con = sqlite3.connect(dbp)
            dump = "\n".join(con.iterdump())
            con.close()
            res[key] = hashlib.sha256(dump.encode()).hexdigest()
            if key == "sqlite":
                rd = RecordReader("sqlite://" + dbp)
                res["read-sqlite"] = seen(list(rd), with_list=False)
                rd.close()

        adesc = RecordDescriptor("c13/a", [("datetime", "ts"), ("string", "s")])
        ap = os.path.join(tmp, "x.avro")
        aw = RecordWriter(ap)
        n = 0
        for i, d in enumerate(dts):
            if 1 < d.year < 9999:
                aw.write(adesc(d, "r%d" % i, _generated=gen))
                n += 1
        aw.flush()
        aw.close()
        import fastavro

        with open(ap, "rb") as f:
            rows = [(row["ts"].isoformat() if row["ts"] is not None else None, row["s"]) for row in fastavro.reader(f)]
        res["avro"] = hashlib.sha256(json.dumps(rows).encode()).hexdigest()
        rd = RecordReader(ap)
        res["read-avro"] = seen(list(rd), with_list=False)
        rd.close()
    finally:
        import shutil

        shutil.rmtree(tmp, ignore_errors=True)

    # stored / compared values
    stored = [(r.ts.year, r.ts.month, r.ts.day, r.ts.hour, r.ts.minute, r.ts.second, r.ts.microsecond,
               r.ts.utcoffset().total_seconds()) for r in recs]
    res["stored"] = hashlib.sha256(json.dumps(stored).encode()).hexdigest()
    eqs = [recs[i] == recs[j] for i in range(0, len(recs), 3) for j in range(0, len(recs), 5)]
    res["eq"] = hashlib.sha256(json.dumps(eqs).encode()).hexdigest()
    hs = [hash(r) == hash(desc(r.ts, list(r.tss), r.s, _generated=gen)) for r in recs]
    res["hash-consistent"] = all(hs)
    res["str-sample"] = str(recs[2].ts)
    print(json.dumps(res))


if __name__ == "__main__":
    main()
