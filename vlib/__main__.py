import sys

from vlib import runner

sys.exit(runner.main())
