"""Hypothesis strategies: names, descriptors, per-type values, records, sequences (DESIGN 3.1).

Strategies produce caseio-encodable *specs*; build_* turn a spec into real flow.record objects.
Sound first: only inputs a caller may pass (see DESIGN "Outside the domain").
"""
import datetime as _d
import ipaddress as _ip
import keyword
import pathlib
import shlex
from zoneinfo import ZoneInfo

from hypothesis import strategies as st

from vlib.caseio import M

UTC = _d.timezone.utc

# ---------------------------------------------------------------------------------------------
# names

_IDENT_FIRST = "abcdefghijklmnopqrstuvwxyzABCDEFGHIJKLMNOPQRSTUVWXYZ"
_IDENT_REST = _IDENT_FIRST + "0123456789_"

AWKWARD_FIELD_NAMES = [
    "class", "from", "None", "True", "import", "lambda", "select", "table", "order", "group", "index",
    "Record", "args", "kwargs", "k", "v", "f", "values", "self", "cls", "name", "type", "str", "repr",
    "r", "Type", "net", "any", "all", "fields", "x" * 200, "A", "a_", "a__b", "Z9_", "ts", "ts_description",
]
AWKWARD_TYPE_PARTS = ["Record", "select", "table", "a", "A", "Z9_", "x" * 60, "class", "None", "json", "csv"]


def ident(max_size=8):
    return st.builds(
        lambda a, b: a + b, st.sampled_from(_IDENT_FIRST), st.text(_IDENT_REST, max_size=max_size - 1)
    )


def field_name():
    return st.one_of(ident(), ident(3), st.sampled_from(AWKWARD_FIELD_NAMES))


def type_name():
    part = st.one_of(ident(6), st.sampled_from(AWKWARD_TYPE_PARTS))
    return (
        st.lists(part, min_size=1, max_size=3)
        .map("/".join)
        .filter(lambda n: not keyword.iskeyword(n.replace("/", "_")))  # `class None(Record)` cannot exist (C06)
    )


# ---------------------------------------------------------------------------------------------
# field types

SCALAR_TYPES = [
    "boolean", "command", "dynamic", "datetime", "filesize", "uint16", "uint32", "float", "string", "wstring",
    "unix_file_mode", "varint", "uri", "digest", "bytes", "path", "record", "stringlist", "dictlist",
    "net.ipaddress", "net.ipnetwork", "net.IPAddress", "net.IPNetwork", "net.ipv4.Address", "net.tcp.Port",
    "net.udp.Port",
]
# list forms T[] (typed lists). stringlist/dictlist are already lists.
LISTABLE = [t for t in SCALAR_TYPES if t not in ("stringlist", "dictlist", "dynamic")]
LIST_TYPES = [t + "[]" for t in LISTABLE]
ALL_TYPES = SCALAR_TYPES + LIST_TYPES

# ---------------------------------------------------------------------------------------------
# primitive values

_BIG_K = [7, 8, 15, 16, 31, 32, 53, 63, 64, 127, 128, 1000]
_INT_BOUNDARIES = sorted(
    {0, 1, -1} | {s * (2**k + d) for k in _BIG_K for d in (-1, 0, 1) for s in (1, -1)}
)


def ints():
    return st.one_of(st.sampled_from(_INT_BOUNDARIES), st.integers(), st.integers(-300, 300))


def nonneg_ints():
    return ints().map(abs)


def uint(bits):
    top = 2**bits - 1
    return st.one_of(st.sampled_from([0, 1, top, top - 1, 2 ** (bits - 1), 255, 256]), st.integers(0, top))


def floats():
    return st.one_of(
        st.floats(allow_nan=True, allow_infinity=True, allow_subnormal=True),
        st.sampled_from([0.0, -0.0, float("inf"), float("-inf"), float("nan"), 5e-324, 1.7976931348623157e308]),
    )


_CHARS = st.one_of(
    st.characters(exclude_categories=["Cs"]),
    st.characters(min_codepoint=0xDC80, max_codepoint=0xDCFF),
    st.sampled_from("\x00\n\r\t\"',;|\\/ {}%$\u2028\U0001F600"),
    st.sampled_from("abcXYZ019"),
)
_LEN_BOUNDARIES = [31, 32, 255, 256]
_BIG_LENS = [65535, 65536]


def text(max_size=24, big=True):
    alts = [
        st.text(_CHARS, max_size=max_size),
        st.text(_CHARS, max_size=max_size),
        st.text(_CHARS, max_size=max_size),
        st.builds(lambda c, n: c * n, st.sampled_from(["a", "\xe9", "\udc80"]), st.sampled_from(_LEN_BOUNDARIES)),
    ]
    s = st.one_of(*alts)
    if big:
        bigs = st.builds(lambda c, n: c * n, st.sampled_from(["a", "\xe9"]), st.sampled_from(_BIG_LENS))
        s = st.one_of(*([s] * 40 + [bigs]))
    return s


def binary(max_size=24, big=True):
    s = st.one_of(
        st.binary(max_size=max_size),
        st.binary(max_size=max_size),
        st.builds(lambda c, n: c * n, st.sampled_from([b"\x00", b"\xff", b"a"]), st.sampled_from(_LEN_BOUNDARIES)),
    )
    if big:
        bigs = st.builds(lambda c, n: c * n, st.sampled_from([b"\x00", b"z"]), st.sampled_from(_BIG_LENS))
        s = st.one_of(*([s] * 40 + [bigs]))
    return s


# ---- datetimes (shared with C13)

# (London / Lisbon / Casablanca are at offset zero for part of the year only, Reykjavik always)
ZONES = ["Europe/Amsterdam", "America/New_York", "Australia/Lord_Howe", "Asia/Kathmandu", "Pacific/Apia", "UTC",
         "Europe/London", "Europe/Lisbon", "Africa/Casablanca", "Atlantic/Reykjavik"]


def tzinfos(naive=True):
    alts = [
        st.just(UTC),
        st.just(UTC),
        st.sampled_from(ZONES).map(ZoneInfo),
        st.integers(-86399, 86399).map(lambda s: _d.timezone(_d.timedelta(seconds=s))),
        st.sampled_from([3600, -3600, 19800, 20700, -34200, 86399, -86399, 1, -1, 0]).map(
            lambda s: _d.timezone(_d.timedelta(seconds=s))
        ),
    ]
    if naive:
        alts.append(st.none())
    return st.one_of(*alts)


_WALL_EDGES = [
    (1, 1, 1, 0, 0, 0, 0),
    (1, 1, 2, 0, 0, 0, 0),
    (9999, 12, 31, 23, 59, 59, 999999),
    (9999, 12, 30, 23, 59, 59, 999999),
    (1969, 12, 31, 23, 59, 59, 999999),
    (1970, 1, 1, 0, 0, 0, 0),
    (1970, 1, 1, 0, 0, 0, 1),
    (2038, 1, 19, 3, 14, 8, 0),
    (2106, 2, 7, 6, 28, 16, 0),
    (2021, 3, 28, 2, 30, 0, 0),   # gap Europe/Amsterdam
    (2021, 10, 31, 2, 30, 0, 0),  # fold Europe/Amsterdam
    (2021, 3, 14, 2, 30, 0, 0),   # gap America/New_York
    (2021, 11, 7, 1, 30, 0, 0),   # fold America/New_York
    (2021, 4, 4, 1, 45, 0, 0),    # fold Lord_Howe (30 minutes)
    (2011, 12, 30, 12, 0, 0, 0),  # skipped day Pacific/Apia
    (1900, 1, 1, 0, 0, 0, 0),
    (2000, 2, 29, 12, 0, 0, 500000),
]


def walls():
    rnd = st.datetimes(min_value=_d.datetime(1, 1, 1), max_value=_d.datetime(9999, 12, 31, 23, 59, 59, 999999)).map(
        lambda d: (d.year, d.month, d.day, d.hour, d.minute, d.second, d.microsecond)
    )
    recent = st.datetimes(min_value=_d.datetime(1960, 1, 1), max_value=_d.datetime(2040, 1, 1)).map(
        lambda d: (d.year, d.month, d.day, d.hour, d.minute, d.second, d.microsecond)
    )
    return st.one_of(st.sampled_from(_WALL_EDGES), rnd, recent)


def _offset_ok(wall, tz, fold):
    """Keep only datetimes whose UTC instant is representable (years 1..9999) so that every
    consumer (isoformat, fromisoformat, astimezone) is defined."""
    try:
        d = _d.datetime(*wall, tzinfo=tz, fold=fold)
        if tz is not None:
            off = d.utcoffset()
            if off is not None and (off.microseconds or False):
                return None
            d.astimezone(UTC)
        return d
    except (OverflowError, ValueError):
        return None


def datetimes(naive=True):
    return st.builds(_offset_ok, walls(), tzinfos(naive), st.sampled_from([0, 0, 1])).filter(lambda d: d is not None)


def aware_datetimes():
    return datetimes(naive=False)


# ---- digests
_HEX = "0123456789abcdef"


def _hexs(nbytes):
    return st.one_of(st.none(), st.text(_HEX, min_size=nbytes * 2, max_size=nbytes * 2))


def digests():
    return st.tuples(_hexs(16), _hexs(20), _hexs(32))


# ---- paths
_SEG_CHARS = st.one_of(st.sampled_from("abcXYZ019._- 'é"), st.characters(exclude_categories=["Cs", "Cc"], exclude_characters="/\\:"))


def _segments():
    return st.lists(st.text(_SEG_CHARS, min_size=1, max_size=8).filter(lambda s: s not in (".", "..")), max_size=4)


def posix_path_str():
    return st.builds(
        lambda root, segs: root + "/".join(segs), st.sampled_from(["", "/", "//", "./"]), _segments()
    )


def windows_path_str():
    return st.builds(
        lambda root, segs, sep: root + sep.join(segs),
        st.sampled_from(["", "c:\\", "C:/", "\\\\host\\share\\", "\\", "d:", "sysvol\\"]),
        _segments(),
        st.sampled_from(["\\", "/"]),
    )


def paths():
    """M('path', (flavour, string, via)); via in str|pure|from."""
    return st.one_of(
        st.builds(lambda s, via: M("path", ("posix", s, via)), posix_path_str(), st.sampled_from(["str", "pure", "from"])),
        st.builds(lambda s, via: M("path", ("windows", s, via)), windows_path_str(), st.sampled_from(["pure", "from"])),
        # a POSIX path whose names contain backslashes / a drive-looking prefix: still a POSIX path
        st.builds(lambda s, via: M("path", ("posix", s, via)), windows_path_str(), st.sampled_from(["pure", "from"])),
    )


# ---- commands
_TOK = st.text(st.sampled_from("abcXYZ019._-/=,+é "), min_size=1, max_size=8)
_WTOK = st.text(st.sampled_from("abcXYZ019._-/=,+é"), min_size=1, max_size=8)


def _posix_cmd(exe, args):
    s = shlex.join([exe] + args)
    stripped = s.lstrip("\"'")
    if s.startswith(("\\\\", "%")) or (len(stripped) >= 2 and stripped[1] == ":"):
        return None
    return M("cmd", ("posix", s))


def commands():
    posix = st.builds(
        _posix_cmd,
        st.one_of(st.sampled_from(["/bin/ls", "some_file.so", "/bin/hello world", "./run.sh", "a"]), _TOK),
        st.lists(_TOK, max_size=3),
    ).filter(lambda m: m is not None)
    win_exe = st.one_of(
        st.sampled_from(
            ["c:\\windows\\system32\\cmd.exe", "%WINDIR%\\\\windows.dll", "\\\\192.168.1.2\\Users\\hello.exe",
             "'c:\\path to some exe'", "D:\\x.exe"]
        ),
        st.builds(lambda d, t: d + ":\\" + t, st.sampled_from("cdEZ"), _WTOK),
    )
    windows = st.builds(lambda e, a: M("cmd", ("windows", " ".join([e] + a))), win_exe, st.lists(_WTOK, max_size=3))
    return st.one_of(posix, posix, windows)


# ---- addresses
def _ip6_ints():
    return st.one_of(
        st.sampled_from([0, 1, 2**32 - 1, 2**32, 2**32 + 1, 2**64, 2**128 - 1, 0xFFFF00000000 + 0x7F000001]),
        st.integers(0, 2**32 - 1),
        st.integers(0, 2**128 - 1),
    )


def ip_strings():
    v4 = st.one_of(st.sampled_from([0, 1, 2**32 - 1, 0x7F000001]), st.integers(0, 2**32 - 1)).map(
        lambda i: str(_ip.IPv4Address(i))
    )
    v6 = _ip6_ints().map(lambda i: str(_ip.IPv6Address(i)))
    return st.one_of(v4, v6, v6)


def ip_networks():
    def mk4(i, p):
        return str(_ip.ip_network((i & ((0xFFFFFFFF << (32 - p)) & 0xFFFFFFFF), p)))

    def mk6(i, p):
        mask = ((1 << 128) - 1) ^ ((1 << (128 - p)) - 1)
        return str(_ip.ip_network((i & mask, p)))

    v4 = st.builds(mk4, st.integers(0, 2**32 - 1), st.integers(0, 32))
    v6 = st.builds(mk6, _ip6_ints(), st.sampled_from([0, 1, 32, 64, 96, 97, 127, 128]) | st.integers(0, 128))
    return st.one_of(v4, v6)


def ipv4_strings():
    return st.integers(0, 2**32 - 1).map(lambda i: str(_ip.IPv4Address(i)))


# ---- uris
def uris():
    safe = st.text(st.sampled_from("abcXYZ019._-~%"), max_size=8)
    built = st.builds(
        lambda sch, host, path, q: "%s://%s/%s%s" % (sch, host, path, ("?" + q) if q else ""),
        st.sampled_from(["http", "https", "ftp", "file", "HTtPs", "x"]),
        safe,
        safe,
        safe,
    )
    free = text(big=False).filter(lambda s: "[" not in s and "]" not in s)
    return st.one_of(built, free)


# ---- containers
def stringlists():
    return st.lists(text(12, big=False), max_size=5)


def _dict_scalars():
    return st.one_of(st.none(), st.booleans(), ints(), floats(), text(8, big=False), st.binary(max_size=8))


def dictlists():
    return st.lists(st.dictionaries(text(6, big=False), _dict_scalars(), max_size=4), max_size=4)


def dynamics(with_path=False):
    alts = [binary(big=False), text(big=False), st.booleans(), ints(), aware_datetimes(), stringlists()]
    if with_path:
        alts.append(paths())
    return st.one_of(*alts)


# ---------------------------------------------------------------------------------------------
# per-type value strategy


def scalar_value(tname, depth=0, types=None):
    """Strategy for a non-None input value of scalar type tname."""
    if tname == "boolean":
        return st.one_of(st.booleans(), st.sampled_from([0, 1]))
    if tname == "command":
        return commands()
    if tname == "dynamic":
        return dynamics()
    if tname == "datetime":
        return datetimes()
    if tname in ("filesize", "unix_file_mode", "varint"):
        return ints() if tname == "varint" else nonneg_ints()
    if tname in ("uint16", "net.tcp.Port", "net.udp.Port"):
        return uint(16)
    if tname == "uint32":
        return uint(32)
    if tname == "float":
        return floats()
    if tname in ("string", "wstring"):
        return text()
    if tname == "uri":
        return uris()
    if tname == "digest":
        return digests()
    if tname == "bytes":
        return binary()
    if tname == "path":
        return paths()
    if tname == "record":
        return record_spec(depth + 1, types=types).map(lambda r: M("rec", r))
    if tname == "stringlist":
        return stringlists()
    if tname == "dictlist":
        return dictlists()
    if tname in ("net.ipaddress", "net.IPAddress"):
        return ip_strings()
    if tname in ("net.ipnetwork", "net.IPNetwork"):
        return ip_networks()
    if tname == "net.ipv4.Address":
        return ipv4_strings()
    raise KeyError(tname)


def value_for(tname, depth=0, types=None):
    """Strategy for an input value (incl. None) of type tname (scalar or list form)."""
    if tname.endswith("[]"):
        inner = scalar_value(tname[:-2], depth, types)
        lst = st.lists(inner, max_size=4)
        return st.one_of(st.none(), lst, lst, lst, lst)
    sv = scalar_value(tname, depth, types)
    return st.one_of(*([st.none()] + [sv] * 6))


def field_types(depth=0, types=None):
    pool = list(types or ALL_TYPES)
    if depth >= 2:
        pool = [t for t in pool if not t.startswith("record")]
    return st.sampled_from(pool)


@st.composite
def descriptor_spec(draw, depth=0, types=None, max_fields=5, names=None):
    name = draw(type_name())
    n = draw(st.sampled_from([0] + [k for k in range(1, max_fields + 1) for _ in range(3)]))
    fnames = draw(st.lists(names or field_name(), min_size=n, max_size=n, unique=True))
    ftypes = [draw(field_types(depth, types)) for _ in fnames]
    return (name, tuple((t, f) for t, f in zip(ftypes, fnames)))


def meta_text():
    return st.one_of(st.none(), text(10, big=False))


@st.composite
def record_spec(draw, depth=0, desc=None, types=None):
    """{'desc': (name, fields), 'vals': [...], 'src':, 'cls':, 'gen': aware datetime}"""
    d = desc or draw(descriptor_spec(depth, types))
    vals = [draw(value_for(t, depth, types)) for t, _ in d[1]]
    return {
        "desc": d,
        "vals": vals,
        "src": draw(meta_text()),
        "cls": draw(meta_text()),
        "gen": draw(aware_datetimes()),
    }


@st.composite
def grouped_spec(draw, depth=0, types=None):
    members = draw(st.lists(record_spec(depth + 1, types=types), min_size=2, max_size=3))
    items = [M("plain", m) for m in members]
    if draw(st.integers(0, 4)) == 0:
        inner = draw(st.lists(record_spec(depth + 1, types=types), min_size=2, max_size=2))
        items.append(M("grp", {"name": draw(type_name()), "recs": [M("plain", m) for m in inner]}))
    return M("grp", {"name": draw(type_name()), "recs": items})


@st.composite
def sequence_spec(draw, types=None, max_len=8, max_desc=4, grouped=True):
    """A record sequence over 1..max_desc descriptors, interleaved; some grouped records."""
    descs = draw(st.lists(descriptor_spec(0, types), min_size=1, max_size=max_desc))
    n = draw(st.integers(0, max_len))
    out = []
    for _ in range(n):
        k = draw(st.integers(0, 11))
        if grouped and k == 0:
            out.append(draw(grouped_spec(0, types)))
        else:
            d = descs[draw(st.integers(0, len(descs) - 1))]
            out.append(M("plain", draw(record_spec(0, desc=d, types=types))))
    return out


# ---------------------------------------------------------------------------------------------
# builders (spec -> flow.record objects)


def build_value(v):
    from flow.record import fieldtypes as ft

    if isinstance(v, M):
        if v.kind == "path":
            flavour, s, via = v.p
            if flavour == "posix":
                if via == "str":
                    return s
                if via == "pure":
                    return pathlib.PurePosixPath(s)
                return ft.path.from_posix(s)
            if via == "pure":
                return pathlib.PureWindowsPath(s)
            return ft.path.from_windows(s)
        if v.kind == "cmd":
            flavour, s = v.p
            return s
        if v.kind == "rec":
            return build_record(v.p)
        if v.kind in ("plain", "grp"):
            return build_any_record(v)
        raise KeyError(v.kind)
    if isinstance(v, list):
        return [build_value(x) for x in v]
    return v


def build_descriptor(d):
    from flow.record import RecordDescriptor

    name, fields = d
    return RecordDescriptor(name, [tuple(f) for f in fields])


def build_record(spec):
    desc = build_descriptor(spec["desc"])
    vals = [build_value(v) for v in spec["vals"]]
    return desc.recordType(*vals, _source=spec["src"], _classification=spec["cls"], _generated=spec["gen"])


def build_any_record(m):
    from flow.record import GroupedRecord

    if m.kind == "plain":
        return build_record(m.p)
    if m.kind == "grp":
        return GroupedRecord(m.p["name"], [build_any_record(x) for x in m.p["recs"]])
    raise KeyError(m.kind)


# ---------------------------------------------------------------------------------------------
# classification of a sequence spec (for the evidence histogram)


def classify_value(t, v, out):
    if v is None:
        out.add("value:none")
        return
    if isinstance(v, M):
        if v.kind == "path":
            out.add("path:" + v.p[0])
            if v.p[1] == "":
                out.add("path:empty")
        elif v.kind == "cmd":
            out.add("command:" + v.p[0])
        elif v.kind == "rec":
            out.add("nested-record")
            classify_record(v.p, out)
        return
    if isinstance(v, bool):
        return
    if isinstance(v, int):
        if abs(v) >= 2**64:
            out.add("int:beyond-64-bit")
        elif abs(v) >= 2**63:
            out.add("int:64-bit-edge")
        if v < 0:
            out.add("int:negative")
        return
    if isinstance(v, float):
        if v != v:
            out.add("float:nan")
        return
    if isinstance(v, str):
        if any(0xDC80 <= ord(c) <= 0xDCFF for c in v):
            out.add("text:surrogate-escape")
        if len(v) >= 65535:
            out.add("text:len>=65535")
        elif len(v) in (31, 32, 255, 256):
            out.add("text:len-boundary")
        if t and "ip" in t.lower() and ":" in v:
            out.add("ip:v6")
            try:
                if int(_ip.IPv6Address(v.split("/")[0])) < 2**32:
                    out.add("ip:v6-below-2^32")
            except ValueError:
                pass
        return
    if isinstance(v, bytes):
        if len(v) >= 65535:
            out.add("bytes:len>=65535")
        return
    if isinstance(v, _d.datetime):
        if v.tzinfo is None:
            out.add("dt:naive")
        elif v.utcoffset() != _d.timedelta(0):
            out.add("dt:non-utc")
        if v.fold:
            out.add("dt:fold1")
        return
    if isinstance(v, (list, tuple)):
        if t and t.endswith("[]"):
            out.add("typedlist:empty" if not v else "typedlist:nonempty")
            for x in v:
                classify_value(t[:-2], x, out)
        elif t == "digest":
            out.add("digest:partial" if any(x is None for x in v) else "digest:full")
        return


def classify_record(spec, out):
    for (t, _), v in zip(spec["desc"][1], spec["vals"]):
        out.add("type:" + t)
        classify_value(t, v, out)
    if any(keyword.iskeyword(f) for _, f in spec["desc"][1]):
        out.add("desc:keyword-field")
    if not spec["desc"][1]:
        out.add("desc:no-fields")


def classify_any(m, out):
    if m.kind == "plain":
        classify_record(m.p, out)
    else:
        out.add("grouped")
        for x in m.p["recs"]:
            if x.kind == "grp":
                out.add("grouped:nested")
            classify_any(x, out)


def has_nonnone(m):
    if m.kind == "plain":
        return any(v is not None for v in m.p["vals"])
    return any(has_nonnone(x) for x in m.p["recs"])
