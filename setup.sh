#!/bin/sh
# Offline setup: make sure hypothesis is importable in /venv (wheelhouse), then self-test the runner.
set -e
cd "$(dirname "$0")"
if ! /venv/bin/python -c "import hypothesis" 2>/dev/null; then
  /venv/bin/pip install --no-index --find-links /opt/veriftools/wheels hypothesis
fi
/venv/bin/python -c "import hypothesis, msgpack, fastavro, lz4, zstandard; print('deps ok', hypothesis.__version__)"
mkdir -p evidence replays
PYTHONPATH=. /venv/bin/python -c "
import sys; sys.path.insert(0, '/repo')
from vlib import caseio, runner, gen, observe
import datetime
x = {'a': [1, 2**70, 1.5, float('inf'), b'\x00', 'x\udc80', (1, 2), datetime.datetime(2020,1,1,tzinfo=datetime.timezone.utc), caseio.M('k', [1])]}
assert caseio.loads(caseio.dumps(x)) == x
print('runner self-test ok')
"
