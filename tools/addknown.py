#!/usr/bin/env python3
"""addknown.py <replay.json> <slug> <text...>: copy a replay into corpus/regress/<ID>/known-<slug>.json and
append the `known:` line to KNOWN_FINDINGS.txt (a development-time tool; checks never write that file)."""
import json, os, shutil, sys
V = os.path.dirname(os.path.dirname(os.path.abspath(__file__)))
src, slug, text = sys.argv[1], sys.argv[2], " ".join(sys.argv[3:])
rec = json.load(open(src))
pid = rec["property"]
os.makedirs(os.path.join(V, "corpus", "regress", pid), exist_ok=True)
rel = "corpus/regress/%s/known-%s.json" % (pid, slug)
shutil.copy(src, os.path.join(V, rel))
with open(os.path.join(V, "KNOWN_FINDINGS.txt"), "a") as f:
    f.write("known: property=%s sig=%s replay=%s :: %s\n" % (pid, rec["sig"], rel, text))
print("added", rec["sig"])
