#!/venv/bin/python
"""Regenerate the 'Parts of each check as built' table in DESIGN.md from the property modules."""
import importlib
import os
import re
import sys

VERIF = os.path.dirname(os.path.dirname(os.path.abspath(__file__)))
sys.path.insert(0, VERIF)
sys.path.insert(0, os.environ.get("VERIF_REPO", "/repo"))


def row(cid):
    mod = importlib.import_module("props." + cid)
    q = {p.name: p for p in mod.parts("quick")}
    t = {p.name: p for p in mod.parts("thorough")}
    cells = []
    for name, p in q.items():
        pt = t.get(name, p)
        if p.cases is not None:
            nq = len(p.cases("quick")) if callable(p.cases) else len(p.cases)
            nt = len(pt.cases("thorough")) if callable(pt.cases) else len(pt.cases)
            cells.append("`%s` (enumerated: %d quick / %d thorough)" % (name, nq, nt))
        else:
            cells.append("`%s` (generated: %d x %d / %d x %d)" % (name, p.shards, p.examples[0], pt.shards, pt.examples[1]))
    for name in t:
        if name not in q:
            cells.append("`%s` (thorough only)" % name)
    return "| %s | %s |" % (cid, "; ".join(cells))


def main():
    rows = [row("C%02d" % i) for i in range(1, 21)]
    p = os.path.join(VERIF, "DESIGN.md")
    s = open(p).read()
    m = re.search(r"(\| Check \| Parts \|\n\|---\|---\|\n)((?:\| C\d\d \|.*\n)+)", s)
    s = s[: m.start(2)] + "\n".join(rows) + "\n" + s[m.end(2):]
    open(p, "w").write(s)
    print("\n".join(r[:150] for r in rows))


if __name__ == "__main__":
    main()
