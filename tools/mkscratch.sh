#!/bin/sh
# tools/mkscratch.sh <seed-dir> : make a patched scratch copy of /repo under /tmp/sc/<basename>; prints its path.
# Use with VERIF_REPO=<path> ./check <ID> ... ; remove the copy afterwards (rm -rf /tmp/sc/<basename>).
SD="$(realpath "$1")"; D=/tmp/sc/$(basename "$SD"); rm -rf "$D"; mkdir -p "$D"
rsync -a --exclude .git --exclude '__pycache__' /repo/ "$D/"
( cd "$D" && git init -q . 2>/dev/null; git -C "$D" apply "$SD/patch.diff" ) || { echo "PATCH FAILED"; exit 3; }
echo "$D"
