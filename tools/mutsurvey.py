#!/venv/bin/python
"""Systematic sensitivity survey (development-time tool, not a registered check).

For a sample of small AST-level mutations of flow.record (comparison / boolean operator swaps, constant flips,
dropped `not`, +/- swaps) it builds a scratch copy of /repo, keeps only the mutants that still pass the 444
baseline tests ("realistic": compile and pass the suite), runs the quick checks mapped to the mutated file against
the copy and records whether a check reports a VIOLATION.  Survivors are listed for manual review (equivalent
mutant / outside every property / weak spot of a check).

usage: tools/mutsurvey.py [--per-file N] [--seed S] [--out FILE] [--files a.py,b.py]
"""
import argparse
import ast
import copy
import hashlib
import json
import os
import shutil
import subprocess
import sys
import tempfile
import time

VERIF = os.path.dirname(os.path.dirname(os.path.abspath(__file__)))
REPO = os.environ.get("VP_RUN_REPO") or "/repo"

FILES = {
    "flow/record/selector.py": ["C07", "C08", "C09", "C10"],
    "flow/record/packer.py": ["C01", "C02", "C03", "C12"],
    "flow/record/stream.py": ["C01", "C04", "C16", "C17", "C15"],
    "flow/record/base.py": ["C01", "C05", "C06", "C11", "C12", "C15", "C03"],
    "flow/record/fieldtypes/__init__.py": ["C01", "C05", "C13", "C20", "C12"],
    "flow/record/fieldtypes/net/ip.py": ["C01", "C05", "C12", "C07"],
    "flow/record/jsonpacker.py": ["C14", "C03"],
    "flow/record/adapter/jsonfile.py": ["C14", "C03", "C10"],
    "flow/record/adapter/avro.py": ["C19", "C17", "C11"],
    "flow/record/adapter/sqlite.py": ["C18", "C10"],
    "flow/record/adapter/csvfile.py": ["C20", "C10"],
    "flow/record/adapter/line.py": ["C20"],
    "flow/record/adapter/text.py": ["C20"],
    "flow/record/adapter/split.py": ["C17"],
    "flow/record/adapter/stream.py": ["C17", "C04", "C11"],
    "flow/record/tools/rdump.py": ["C16"],
}

CMP_SWAP = {ast.Lt: ast.LtE, ast.LtE: ast.Lt, ast.Gt: ast.GtE, ast.GtE: ast.Gt, ast.Eq: ast.NotEq, ast.NotEq: ast.Eq,
            ast.In: ast.NotIn, ast.NotIn: ast.In, ast.Is: ast.IsNot, ast.IsNot: ast.Is}


class Site:
    def __init__(self, kind, lineno, idx):
        self.kind, self.lineno, self.idx = kind, lineno, idx


def sites(tree):
    out = []
    k = 0
    for node in ast.walk(tree):
        if isinstance(node, ast.Compare):
            for i, op in enumerate(node.ops):
                if type(op) in CMP_SWAP:
                    out.append(("cmp", k, i, getattr(node, "lineno", 0)))
        elif isinstance(node, ast.BoolOp):
            out.append(("bool", k, 0, getattr(node, "lineno", 0)))
        elif isinstance(node, ast.UnaryOp) and isinstance(node.op, ast.Not):
            out.append(("not", k, 0, getattr(node, "lineno", 0)))
        elif isinstance(node, ast.Constant) and isinstance(node.value, bool):
            out.append(("const-bool", k, 0, getattr(node, "lineno", 0)))
        elif isinstance(node, ast.Constant) and isinstance(node.value, int) and not isinstance(node.value, bool) and node.value in (0, 1, 2, 4):
            out.append(("const-int", k, 0, getattr(node, "lineno", 0)))
        elif isinstance(node, ast.BinOp) and isinstance(node.op, (ast.Add, ast.Sub)):
            out.append(("addsub", k, 0, getattr(node, "lineno", 0)))
        elif isinstance(node, ast.If):
            out.append(("if-negate", k, 0, getattr(node, "lineno", 0)))
        k += 1
    return out


def apply(tree, site):
    kind, k, i, _ = site
    tree = copy.deepcopy(tree)
    for n, node in enumerate(ast.walk(tree)):
        if n != k:
            continue
        if kind == "cmp":
            node.ops[i] = CMP_SWAP[type(node.ops[i])]()
        elif kind == "bool":
            node.op = ast.Or() if isinstance(node.op, ast.And) else ast.And()
        elif kind == "not":
            node.op = ast.UAdd()  # drop the negation (UAdd keeps truthiness of bools)
            node.operand = ast.Call(func=ast.Name(id="bool", ctx=ast.Load()), args=[node.operand], keywords=[])
        elif kind == "const-bool":
            node.value = not node.value
        elif kind == "const-int":
            node.value = node.value + 1
        elif kind == "addsub":
            node.op = ast.Sub() if isinstance(node.op, ast.Add) else ast.Add()
        elif kind == "if-negate":
            node.test = ast.UnaryOp(op=ast.Not(), operand=node.test)
        break
    ast.fix_missing_locations(tree)
    return tree


def run(cmd, env=None, timeout=1800):
    p = subprocess.run(cmd, stdout=subprocess.PIPE, stderr=subprocess.STDOUT, text=True, env=env, timeout=timeout)
    return p.returncode, p.stdout


def main():
    ap = argparse.ArgumentParser()
    ap.add_argument("--per-file", type=int, default=8)
    ap.add_argument("--seed", type=int, default=1)
    ap.add_argument("--out", default=os.path.join(VERIF, "mutants", "survey.jsonl"))
    ap.add_argument("--files", default="")
    args = ap.parse_args()
    files = {f: c for f, c in FILES.items() if not args.files or f in args.files.split(",")}
    os.makedirs(os.path.dirname(args.out), exist_ok=True)
    results = []
    with open(args.out, "a") as outf:
        for rel, checks in files.items():
            src = open(os.path.join(REPO, rel)).read()
            tree = ast.parse(src)
            ss = sites(tree)
            # deterministic sample
            ss.sort(key=lambda s: hashlib.sha256(("%d|%s|%r" % (args.seed, rel, s)).encode()).hexdigest())
            for site in ss[: args.per_file]:
                mutated = ast.unparse(apply(tree, site))
                if mutated == ast.unparse(tree):
                    continue
                d = tempfile.mkdtemp(prefix="mutsurvey-")
                try:
                    subprocess.run(["rsync", "-a", "--exclude", ".git", "--exclude", "__pycache__", REPO + "/", d + "/"], check=True)
                    with open(os.path.join(d, rel), "w") as f:
                        f.write(mutated)
                    t0 = time.time()
                    rc, out = run([os.path.join(VERIF, "tools", "baseline.py"), d])
                    rec = {"file": rel, "kind": site[0], "line": site[3], "baseline_pass": rc == 0}
                    if rc == 0:
                        killed_by = []
                        for cid in checks:
                            env = dict(os.environ, VERIF_REPO=d, VERIF_EXAMPLES_SCALE="0.5")
                            crc, cout = run([os.path.join(VERIF, "check"), cid, "--no-evidence"], env=env)
                            if crc == 1:
                                killed_by.append(cid)
                                break
                            if crc == 2:
                                rec.setdefault("harness_errors", []).append(cid)
                        rec["killed_by"] = killed_by
                        rec["survived"] = not killed_by
                        # show the mutated line for the review
                        try:
                            rec["line_text"] = src.splitlines()[site[3] - 1].strip()[:160]
                        except Exception:
                            pass
                    rec["seconds"] = round(time.time() - t0, 1)
                    outf.write(json.dumps(rec) + "\n")
                    outf.flush()
                    results.append(rec)
                    print(json.dumps(rec), flush=True)
                finally:
                    shutil.rmtree(d, ignore_errors=True)
    real = [r for r in results if r["baseline_pass"]]
    print("SURVEY mutants=%d pass-baseline=%d killed=%d survived=%d" % (
        len(results), len(real), sum(1 for r in real if not r["survived"]), sum(1 for r in real if r["survived"])))


if __name__ == "__main__":
    main()
