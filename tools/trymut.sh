#!/bin/sh
# Sensitivity audit helper (not a registered check):
#   tools/trymut.sh <patch-file> <ID> [<ID>...]     -- apply patch to a scratch copy of /repo, run quick checks
# Env: TIER=quick|thorough  BASELINE=1 (also run the pinned test-suite on the mutant)
set -u
PATCH="$(realpath "$1")"; shift
D="$(mktemp -d /tmp/mut-XXXXXX)"
rsync -a --exclude .git --exclude '__pycache__' /repo/ "$D/"
( cd "$D" && patch -p1 -s < "$PATCH" ) || { echo "PATCH FAILED"; rm -rf "$D"; exit 3; }
if [ "${BASELINE:-0}" = "1" ]; then /verif/tools/baseline.py "$D" | head -5; fi
cd /verif
for ID in "$@"; do
  VERIF_REPO="$D" ./check "$ID" --tier "${TIER:-quick}" --no-evidence 2>&1 | grep -E "^(VIOLATION|SUMMARY|HARNESS|DETAIL)" | cut -c1-300 | head -12
  echo "exit=$? ($ID)"
done
rm -rf "$D"
