#!/venv/bin/python
"""Generate the frozen golden corpus (run ONCE, against a clean worktree of the pinned revision):

   git -C /repo worktree add /tmp/golden-wt 69a5132
   VERIF_REPO=/tmp/golden-wt PYTHONHASHSEED=0 TZ=UTC /venv/bin/python tools/mkgolden.py
   git -C /repo worktree remove --force /tmp/golden-wt

Writes corpus/golden/gNN.records[.gz] + gNN.expected.json (typed models, caseio-encoded)."""
import json
import os
import sys

VERIF = os.path.dirname(os.path.dirname(os.path.abspath(__file__)))
sys.path.insert(0, VERIF)
from vlib import runner  # noqa: E402  (puts VERIF_REPO first on sys.path)

runner._check_repo()
import hypothesis  # noqa: E402
from hypothesis import HealthCheck, Phase, given, settings  # noqa: E402

from props import C01  # noqa: E402
from vlib import caseio, gen, refcodec  # noqa: E402

import flow.record  # noqa: E402
from flow.record import RecordWriter  # noqa: E402

cases = []


def collect(strategy, n, seed):
    @hypothesis.seed(seed)
    @settings(max_examples=n, database=None, deadline=None, phases=[Phase.generate],
              suppress_health_check=list(HealthCheck))
    @given(strategy)
    def run(c):
        cases.append(c)

    run()


collect(C01.case_strategy(), 260, 20261001)
collect(C01.focused_strategy(), 500, 20261002)

out = os.path.join(VERIF, "corpus", "golden")
os.makedirs(out, exist_ok=True)
kept = []
big = 0
for c in cases:
    labels = set()
    for m in c["seq"]:
        gen.classify_any(m, labels)
    if "ip:v6-below-2^32" in labels:
        continue  # F01: the pinned revision mis-encodes these; not part of the frozen format
    if "text:len>=65535" in labels or "bytes:len>=65535" in labels:
        big += 1
        if big > 6:
            continue
    try:
        recs = [gen.build_any_record(m) for m in c["seq"]]
    except Exception:
        continue
    if recs:
        kept.append(recs)

print("cases kept:", len(kept), "records:", sum(len(k) for k in kept), "from", flow.record.__file__)
CH = 40
n = 0
for i in range(0, len(kept), CH):
    chunk = [r for recs in kept[i:i + CH] for r in recs]
    ext = ".records.gz" if (i // CH) % 2 else ".records"
    path = os.path.join(out, "g%02d%s" % (i // CH, ext))
    w = RecordWriter(path)
    for r in chunk:
        w.write(r)
    w.flush()
    w.close()
    models = [refcodec.record_model(r) for r in chunk]
    with open(os.path.join(out, "g%02d.expected.json" % (i // CH)), "w") as f:
        f.write(caseio.dumps(models))
    n += len(chunk)
print("files:", (len(kept) + CH - 1) // CH, "records:", n)
