#!/bin/sh
# tools/runthorough.sh <seed> <ID...> : thorough tier of the named checks, one summary line each (development aid)
cd "$(dirname "$0")/.."
SEED="$1"; shift
for ID in "$@"; do
  OUT=$(VERIF_SEED=$SEED ./check $ID --tier thorough --no-evidence 2>&1)
  RC=$?
  echo "$ID seed=$SEED rc=$RC $(echo "$OUT" | grep -E '^SUMMARY' | cut -c1-200)"
  if [ $RC -ne 0 ]; then echo "$OUT" | grep -E '^(VIOLATION|DETAIL|HARNESS)' | cut -c1-500 | head -12; echo "$OUT" | grep -A45 '^HARNESS-ERROR' | grep -v '^  File "/venv' | tail -25 | cut -c1-300; fi
done
