#!/usr/bin/env python3
"""Regenerate /verif/MANIFEST.json from the table below (and validate it against the schema)."""
import json
import os

VERIF = os.path.dirname(os.path.dirname(os.path.abspath(__file__)))

# id -> (category, technique, level text, level note, design ref)
CHECKS = {
    "C01": (
        "exploration",
        "property-based round-trip testing (Hypothesis), oracle = deep canonical observation equality",
        "Generated record sequences over every serialisable field type (scalar and list form), nested and grouped "
        "records, several descriptors, written and read back through both the low-level stream classes and the "
        "path-based writer/reader (plain, gzip); every record compared field for field on class, bit pattern, flavour, "
        "UTC offset, address family and order. Holds on everything explored; no absence proof.",
        "Trusts Hypothesis' generators and /verif's observation function; identity never uses Record.__eq__. "
        "Sizes above 70 kB only at the explicit boundary lengths.",
        "DESIGN.md 4/C01",
    ),
    "C02": (
        "exploration",
        "differential testing against an independent reference codec (both directions) + frozen golden corpus",
        "Every generated stream the implementation writes is decoded strictly by a codec written from the format "
        "description (own msgpack subset, own SHA-256 identifier, descriptor-before-record rule) and compared as typed "
        "models; reference-encoded streams with format-permitted variation (non-minimal widths, float32, ISO UTC "
        "timestamps, no version, extra reserved values, bare-name identifiers, repeated descriptor/header frames) and "
        "14 golden files frozen at the pinned revision must be read back as the records they encode.",
        "Trusts /verif's reference codec (vlib/refcodec.py; cross-checked against the golden corpus on every run) and "
        "the golden corpus as the authority for per-type encodings.",
        "DESIGN.md 4/C02",
    ),
    "C03": (
        "exploration",
        "bounded-exhaustive + random write-history generation (1-3 writers, binary and JSON), invariant over the "
        "produced frame/line sequence plus read-back",
        "All write histories up to length 4 over a 7-entry descriptor pool (same-name pair, identifier-colliding "
        "pair, nested-only holder, grouped, field-less) on one writer and up to length 3 on two writers are "
        "enumerated for the binary and the JSON writer; longer random histories use generated pools. The emitted "
        "stream is parsed independently and every record, nested record and grouped member must be preceded in its "
        "own stream by its exact descriptor; the reader must return each record with its original descriptor.",
        "32-bit hash collisions between unrelated names are not searched (only structural collisions are "
        "constructed). One listed known finding (a grouped record whose own members collide).",
        "DESIGN.md 4/C03",
    ),
    "C04": (
        "fault_enumeration",
        "fault injection + exhaustive cut enumeration per generated stream, oracle = frame table from the reference "
        "codec (independent zlib inflate for gzip)",
        "For each generated stream (raw and gzip) every byte offset at which the file can end is cut and read through "
        "RecordStreamReader and RecordReader (file object and path); every write-call index with 0/1/half/len-1 "
        "kept bytes is failed (fail-stop) under RecordStreamWriter, the StreamWriter adapter and a gzip writer. The "
        "reader must yield exactly the records whose frames are complete - unmodified, in order, none skipped - and "
        "must not raise at a frame boundary.",
        "Fail-stop fault model; streams above 3 kB are cut on a 300-point grid plus frame boundaries +-1 instead of "
        "every offset; bz2/lz4/zstd truncation is checked with the weaker 'unmodified prefix' oracle.",
        "DESIGN.md 4/C04",
    ),
    "C08": (
        "exploration",
        "exhaustive enumeration of the finite comparison grammar on both engines + property-based mixed-stream "
        "filtering through readers and rdump, oracle = context(False) / plain-Python reference filter",
        "The whole table operator x operand position x 30 operand kinds x 7 boolean contexts x 2 engines is run "
        "(about 7 000 rows) and must evaluate to context(False) without raising; helper functions with missing names "
        "must equal the call without them; generated heterogeneous streams filtered through RecordStreamReader, "
        "RecordReader, record_stream and rdump -s (both engines) must output exactly the records that have the field "
        "and satisfy the condition, and later sources must still be read.",
        "Nine listed known findings, all in the compiled engine (Python's membership and != protocol cannot be "
        "intercepted by the sentinel); rows that hit them are counted in excluded_known.",
        "DESIGN.md 4/C08",
    ),
    "C07": (
        "exploration",
        "grammar-based program generation (Hypothesis) x generated records, differential against an independent "
        "reference evaluator (Python eval over the raw record, re-implemented helpers and Type matcher)",
        "Well-typed selector programs over the documented language (every comparison operator also in chained "
        "position, boolean operators, the six arithmetic/bit operators, membership, literals, helpers, constructors, "
        "Type matchers, any/all generator expressions with if clauses and two for clauses, sibling generators reusing "
        "a variable) are evaluated by Selector, CompiledSelector and the reference on generated records; constructs "
        "outside the engine's tables must be rejected or mean the same.",
        "Reference semantics of helpers/Type matcher re-implemented from their docstrings; expressions undefined in "
        "Python are skipped; one listed known finding (bare constructors in the compiled engine).",
        "DESIGN.md 4/C07",
    ),
    "C09": (
        "exploration",
        "enumerated hostile-program grammar (call-target shapes x method names x embedding contexts) + random "
        "nesting (Hypothesis), invariant oracle over instrumented canary records",
        "About 13 000 hostile selector programs per quick run (every alternative AST spelling of a call target, every "
        "whitelisted helper/type leaf name as method name, dunder attributes at every depth, 23 embedding contexts, "
        "nested up to 3 levels) are evaluated by the interpreted selector on a record holding canary objects: the "
        "canary log and tripwires must stay empty, every expression must be refused, the record must be unchanged; "
        "benign whitelisted calls in the same contexts must still be accepted.",
        "'No accepted hostile shape exists' is bounded by the shape grammar (derived from every ast node kind that "
        "can be Call.func or lie on the path to it).",
        "DESIGN.md 4/C09",
    ),
    "C10": (
        "exploration",
        "metamorphic property-based testing: filter-while-reading vs filter-afterwards over five reader adapters; "
        "purity / order-independence of match()",
        "For generated record sequences written with each adapter's own writer and grammar-generated selectors (as "
        "text, Selector and CompiledSelector objects) the records yielded with the selector must equal - same deep "
        "observations, same order, same terminating exception type - the post-filter of a selector-less read; "
        "matching must not change the record, must be repeatable, and a reused selector object must give the results "
        "of fresh selectors over the sequence, its reverse and a generated permutation.",
        "Selector semantics themselves are C07/C08 (stream records are additionally cross-checked against the reference "
        "evaluator to expose state shared by all selector objects); Avro and CSV runs use a single descriptor; JSON "
        "is read with and without descriptors; empty selectors are enumerated.",
        "DESIGN.md 4/C10",
    ),
    "C11": (
        "exploration",
        "configuration-matrix enumeration (codec x container x access path) over generated sequences + garbage-input "
        "fuzzing (Hypothesis), oracle = independent decompressors + reference decode + cross-access agreement",
        "Every cell of codec {none,gz,bz2,lz4,zst,zstd} x container {stream,avro} is written by path and read back by "
        "path, by a name that hides the codec, from a buffered file, BytesIO, an unbuffered raw object without peek() "
        "and (sampled) the standard input of a real rdump subprocess; the file must start with the codec magic, a "
        "standard decompressor plus the reference codec / fastavro must recover the written records, and every access "
        "way must return equal records through the expected adapter. Generated garbage must be refused with an error "
        "and yield no record.",
        "Standard decompressor = the Python bindings present; avro cells restricted to avro-mappable types. Part "
        "'interleaved' reads 2-3 open sources of one codec alternately (readers must not share decoder state).",
        "DESIGN.md 4/C11",
    ),
    "C05": (
        "exploration",
        "model-based operation-sequence testing (Hypothesis): construct / setattr / failed setattr / _replace / "
        "digest setters / pack-unpack histories with candidate values classed valid, must-reject, either",
        "Generated histories of up to 30 (quick) / 50 (thorough) operations on one record over every scalar and list "
        "field type; after each step the oracle checks the outcome class (valid accepted, unrepresentable rejected), "
        "that a failed operation left the whole record's deep observation unchanged, that every slot is unset or an "
        "instance of its declared type (list elements of the element type, timestamps aware, ranges respected, "
        "digest components well-formed) and that the record can be packed.",
        "Wrong-kind inputs the statement does not name may go either way; record/dynamic are pass-through types. "
        "Candidates include existing field values / typed lists of related types (seeded change C05) and "
        "whitespace-laden digests (seeded change C05-r2).",
        "DESIGN.md 4/C05",
    ),
    "C06": (
        "exploration",
        "exhaustive short-string enumeration + mutation/payload fuzzing (Hypothesis) through four delivery channels, "
        "oracle = reference grammar + exec-source AST allow-list + import monitor + tripwires",
        "Every string up to length 2 (thorough: 3) over a 40-character hostile alphabet is tried as type name, field "
        "name and field type through the constructor, a crafted descriptor frame, a JSON descriptor line and an Avro "
        "schema doc; generated mutations of valid definitions, Python keywords, template-namespace identifiers, very "
        "long names and code payloads follow. Definitions outside the reference grammar must be rejected, accepted "
        "ones must yield a record with exactly the declared + reserved slots whose version/generated stamping works, "
        "and every source text handed to exec must match an AST allow-list.",
        "Quick tier samples 1/16 of the length-3 strings; the monitors shadow module attributes of flow.record.base "
        "from the check process. Further enumerated parts: derived-type-names (every near miss of a whitelisted "
        "type name), template-identifiers, reserved-field-positions, after-colliding-twin (a definition that follows a "
        "valid one with the same identifier), bytes-names (names given as bytes, undecodable bytes included), and every "
        "field view (fields / get_all_fields / getfields) of an accepted descriptor.",
        "DESIGN.md 4/C06",
    ),
    "C12": (
        "exploration",
        "property-based testing of algebraic laws (reflexive, symmetric, complementary, hash-consistent) over "
        "generated records, copies and clear single-field variations, under ignored-field configurations",
        "Generated plain, nested and grouped records over all field types are compared with an independently rebuilt "
        "copy (must be equal, equal hash, found in set/dict), with single-field variations that /verif's typed models "
        "show to be clearly different (must be unequal unless the field is ignored, then equal with equal hash), with a "
        "same-values record of another descriptor and with non-records; ==, != and hash must never raise; the "
        "ignored-field configuration must be restored after every scope exit, nested and by exception.",
        "Grey pairs (0.0/-0.0, NaN, one instant under two offsets) are never used as 'equal' or 'different' evidence. "
        "Half of the copies are rebuilt after the record-class cache was cleared (equality must not depend on class "
        "identity).",
        "DESIGN.md 4/C12",
    ),
    "C13": (
        "exploration",
        "property-based testing over datetimes x tzinfo kinds x input forms x storage formats + enumerated "
        "display-setting matrix run in one worker process per setting (metamorphic: outputs must be byte-identical)",
        "Generated datetimes (edge years, pre-1970, DST folds and gaps, fixed offsets with seconds, IANA zones, naive) "
        "are constructed from objects, ISO text and epoch numbers and must come out aware with the input's wall fields "
        "and offset; they are round-tripped through the binary stream, JSON, SQLite (same wall fields and offset) and "
        "Avro (same UTC instant); for all 10 FLOW_RECORD_TZ x TZ settings a seed-derived record set must produce "
        "identical stream/JSON/SQLite/Avro bytes, stored values and ==/hash results.",
        "Sub-second UTC offsets are outside the domain; one listed known finding (datetime[] text in SQLite).",
        "DESIGN.md 4/C13",
    ),
    "C14": (
        "exploration",
        "property-based round-trip + output-shape validation (incremental JSON parse) over descriptors x values x "
        "writer configurations",
        "Generated records over every JSON-supported type (scalar and list) are written with descriptors on/off and "
        "indent None/0/2/4, directly and through RecordWriter URIs. The output must parse as a sequence of JSON "
        "objects (one per line without indent) whose keys are the record's fields plus the type markers; with "
        "descriptors the records read back must have equal deep observations; without descriptors every line must "
        "read back as a record carrying the same scalar JSON values.",
        "NaN payload bits are not distinguished (JSON has a single NaN token); windows-flavoured paths are outside "
        "the statement (POSIX paths).",
        "DESIGN.md 4/C14",
    ),
    "C15": (
        "exploration",
        "model-based property testing: composition operations over overlapping-name descriptors compared with a "
        "dictionary-based reference model",
        "Generated lists of records whose field names are drawn from a six-name pool (incl. 'ts' and "
        "'ts_description') with differing types are extended / merged (replace on/off, rename), expanded per "
        "timestamp, grouped (incl. nested groups), copied with _replace, re-initialised from dicts/records and "
        "projected with RecordFieldRewriter; field order, field types, value provenance (first/last wins), names and "
        "the untouched originals are compared with /verif's reference model.",
        "Metadata of composed records is only constrained where the statement says so.",
        "DESIGN.md 4/C15",
    ),
    "C17": (
        "exploration",
        "bounded-exhaustive enumeration of writer call histories and of the split arithmetic grid + property-based "
        "rotation sequences under an owned clock; oracle = read-back equality, independent tools, multiset "
        "conservation",
        "All protocol-valid histories of up to 5 calls (write/flush then close / with-exit / double close) are run for "
        "12 writers (stream with 6 codecs, jsonfile, avro, sqlite, csvfile, line, text); the full grid N in 0..3L+1 x L "
        "in 1..5 x 4 targets x 2 closing styles is run for the split writer; generated timestamp sequences with "
        "pre-existing files drive PathTemplateWriter under a frozen or advancing clock. After the final close the "
        "matching reader and an independent tool must see exactly the records written, parts must be readable alone "
        "and concatenate (record-wise and as raw bytes) to the sequence, and no record may disappear in a rotation.",
        "The rotation clock is owned by shadowing flow.record.stream.datetime from the check process. Two listed "
        "known findings (empty stream writer closed without flush; trailing empty split part).",
        "DESIGN.md 4/C17",
    ),
    "C18": (
        "exploration",
        "model-based operation sequences (Hypothesis) with an independent sqlite3 connection as observer after every "
        "step; metamorphic comparison across batch sizes",
        "Generated write/flush/close histories over evolving descriptors (SQL keywords and case-mixed names as table "
        "and column names, 64-bit integers, finite floats, bytes, timestamps, text-form types) are applied with a "
        "generated batch size; after every call a second connection must see a per-table prefix whose total is an "
        "allowed commit point and not below the last mandatory one; after close tables, columns, row order and cell "
        "values are compared with the records written, also through SqliteReader; replaying the history with another "
        "batch size must give an identical database dump.",
        "The observer looks between calls only; atomicity inside one call rests on SQLite's transactions.",
        "DESIGN.md 4/C18",
    ),
    "C19": (
        "exploration",
        "property-based round-trip with refusal sequences (good.., refused, good..) against fastavro.reader and "
        "AvroReader; classification of every generated value as representable / must-refuse",
        "Generated descriptors over the Avro-mapped types with boundary values (int32/int64 edges, uint32 >= 2^31, "
        "NaN/inf, float32 overflow, pre-1970 timestamps, lone surrogates, None) are written in sequences that mix "
        "representable and unrepresentable records, a second descriptor and flushes. Representable records must be "
        "accepted and read back (type name, field list, float32-rounded floats, UTC instants) by both the standard "
        "reader and AvroReader; unrepresentable ones and unmapped field types must raise at write(); after a refusal "
        "the file must hold exactly the accepted records.",
        "Standard Avro reader = fastavro; one listed known finding (a refused record corrupts the block buffer).",
        "DESIGN.md 4/C19",
    ),
    "C20": (
        "exploration",
        "property-based testing of three text writers against independently assembled renderings and a standard CSV "
        "parse; CSV reader round trip over sniffable files",
        "Generated records over all field types (cells with delimiters, quotes, CR/LF, NUL, unicode, surrogate "
        "escapes) are written by the CSV, line and text writers under generated options (fields, exclude, "
        "lineterminator, verbose, format templates with {field}, {field:spec}, {missing}); csv.reader must recover "
        "header and cells exactly per descriptor run, the line and text output must equal /verif's own rendering byte "
        "for byte, and no writer may raise for a valid record; stdlib-written CSV files with a sniffable delimiter "
        "must read back with the same text values.",
        "Text form = str()/format() of the field value; one listed known finding (line break other than the "
        "configured terminator is not quoted).",
        "DESIGN.md 4/C20",
    ),
    "C16": (
        "exploration",
        "differential testing of generated rdump invocations against a reference pipeline (prefix -> predicate -> "
        "slice -> overrides -> projection -> expansion), in-process and as a subprocess, with injected bad sources",
        "Generated option combinations (skip, count, selector with compiled and interpreted engine, -F, -X, metadata "
        "overrides, --multi-timestamp, --split, seven output targets and six stdout modes) run over 1-4 input files "
        "of three record types with missing, truncated, garbage and empty sources placed among the good ones. Stream "
        "and JSON outputs are read back and compared by deep observation with the reference pipeline's records; CSV, "
        "line and text outputs and captured stdout are compared byte for byte with the same records rendered through "
        "the same writer.",
        "Expected records are rendered with the repository's own writers (their fidelity is C14/C20); csv/line split "
        "parts are not compared (per-part headers).",
        "DESIGN.md 4/C16",
    ),
}

NOT_APPLICABLE = {}


def main():
    props = [json.loads(line) for line in open(os.path.join(VERIF, "properties.jsonl"))]
    ids = [p["id"] for p in props]
    checks = []
    for pid in ids:
        if pid not in CHECKS:
            continue
        cat, tech, text, note, ref = CHECKS[pid]
        checks.append(
            {
                "property_id": pid,
                "quick_cmd": "./check %s --tier quick" % pid,
                "thorough_cmd": "./check %s --tier thorough" % pid,
                "evidence_file": "/verif/evidence/%s.json" % pid,
                "replay_cmd_template": "./check %s --replay {path}" % pid,
                "engine": "vlib-runner",
                "level_claimed": {"category": cat, "text": text, "design_ref": ref},
                "level_note": note,
                "technique": tech,
            }
        )
    na = []
    for pid in ids:
        if pid not in CHECKS:
            na.append({"property_id": pid, "reason": NOT_APPLICABLE.get(pid, "check not built yet (work in progress)")})
    man = {
        "version": 1,
        "setup_cmd": "./setup.sh",
        "hooks": {
            "guard": "FLOW_RECORD_VERIF",
            "enable": "no source hooks are needed: checks import /repo's working tree directly (pure Python); "
            "C06/C17 shadow module attributes from the check process",
            "baseline_off_cmd": "cd /repo && /venv/bin/python -m pytest -ra -q -p no:cacheprovider --timeout=900 "
            "--continue-on-collection-errors",
            "source_commits": [],
            "add_only": True,
        },
        "engines": [
            {
                "name": "vlib-runner",
                "path": "/verif/vlib/runner.py",
                "serves_properties": [c["property_id"] for c in checks],
                "kind_free_text": "Hypothesis 6.168 property-based search + bounded exhaustive enumeration, sharded "
                "over 16 processes; explicit oracles per property in /verif/props",
            }
        ],
        "checks": checks,
        "not_applicable": na,
        "notes": "All checks: cwd=/verif, honour VERIF_SEED / VERIF_TIER / VERIF_REPO (default /repo), exit 0/1/2 as "
        "described in DESIGN.md section 2. Known findings: /verif/KNOWN_FINDINGS.txt.",
    }
    with open(os.path.join(VERIF, "MANIFEST.json"), "w") as f:
        json.dump(man, f, indent=1)
    try:
        import jsonschema

        jsonschema.validate(man, json.load(open("/root/.vp/MANIFEST.schema.json")))
        print("MANIFEST.json valid; checks:", [c["property_id"] for c in checks])
    except ImportError:
        print("MANIFEST.json written (jsonschema not available to validate)")


if __name__ == "__main__":
    main()
