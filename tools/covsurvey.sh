#!/bin/sh
# tools/covsurvey.sh [ID...] : line coverage of /repo/flow/record under the quick checks (development aid, not a check).
# Output: /tmp/covsurvey/report.txt (missing lines per file). Scratch data under /tmp/covsurvey, safe to delete.
cd "$(dirname "$0")/.."
OUT=/tmp/covsurvey; rm -rf $OUT; mkdir -p $OUT
cat > $OUT/rc <<EOF
[run]
concurrency = multiprocessing
parallel = True
data_file = $OUT/data
source = /repo/flow/record
EOF
IDS="${*:-C01 C02 C03 C04 C05 C06 C07 C08 C09 C10 C11 C12 C13 C14 C15 C16 C17 C18 C19 C20}"
for ID in $IDS; do
  env PYTHONHASHSEED=0 PYTHONUTF8=1 TZ=UTC PYTHONDONTWRITEBYTECODE=1 PYTHONWARNINGS=ignore COVERAGE_PROCESS_START=$OUT/rc \
    VERIF_EXAMPLES_SCALE=${SCALE:-0.4} /venv/bin/python -m coverage run --rcfile=$OUT/rc -m vlib $ID --tier quick --no-evidence 2>&1 | grep -E '^SUMMARY' | cut -c1-160
done
/venv/bin/python -m coverage combine --rcfile=$OUT/rc >/dev/null 2>&1
/venv/bin/python -m coverage report --rcfile=$OUT/rc -m > $OUT/report.txt 2>&1
tail -40 $OUT/report.txt
