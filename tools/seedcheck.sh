#!/bin/sh
# tools/seedcheck.sh <seed-dir> <ID> [<ID>...]
#   <seed-dir> holds patch.diff and demo.py. Confirms: patch applies to a scratch copy of /repo, the 444 baseline
#   tests still pass, demo exits 1 with the change and 0 without; then runs the named quick checks against the copy.
set -u
SD="$(realpath "$1")"; shift
D="$(mktemp -d /tmp/seedchk-XXXXXX)"
rsync -a --exclude .git --exclude '__pycache__' /repo/ "$D/"
( cd "$D" && git init -q . 2>/dev/null; git -C "$D" apply "$SD/patch.diff" ) || ( cd "$D" && patch -p1 -s < "$SD/patch.diff" ) || { echo "PATCH FAILED"; rm -rf "$D"; exit 3; }
echo "== baseline with change:"; /verif/tools/baseline.py "$D" | head -4
DEMO=$(ls "$SD"/demo*.py | head -1)
PYTHONPATH=/repo /venv/bin/python "$DEMO" >/dev/null 2>&1; echo "== demo on unchanged tree: exit $?"
PYTHONPATH="$D" /venv/bin/python "$DEMO" >/dev/null 2>&1; echo "== demo on changed tree:   exit $?"
cd /verif
for ID in "$@"; do
  echo "== check $ID (${TIER:-quick}):"
  VERIF_REPO="$D" ./check "$ID" --tier "${TIER:-quick}" --no-evidence 2>&1 | grep -E "^(VIOLATION|SUMMARY|HARNESS|DETAIL)" | cut -c1-260 | head -8
done
rm -rf "$D"
