#!/bin/sh
# tools/runall.sh <tier> <seed...> : run every registered check, print one line per (check, seed)
cd "$(dirname "$0")/.."
TIER="$1"; shift
# under `vp run --with-repo` use the /repo snapshot taken for the run, so later fix commits do not mix in
if [ -n "${VP_RUN_REPO:-}" ] && [ -z "${VERIF_REPO:-}" ]; then export VERIF_REPO="$VP_RUN_REPO"; fi
for SEED in "$@"; do
  for ID in C01 C02 C03 C04 C05 C06 C07 C08 C09 C10 C11 C12 C13 C14 C15 C16 C17 C18 C19 C20; do
    OUT=$(VERIF_SEED=$SEED ./check $ID --tier $TIER --no-evidence 2>&1)
    RC=$?
    echo "$ID seed=$SEED rc=$RC $(echo "$OUT" | grep -E '^SUMMARY' | cut -c1-200)"
    if [ $RC -ne 0 ]; then echo "$OUT" | grep -E '^(VIOLATION|DETAIL|HARNESS)' | cut -c1-400 | head -10; echo "$OUT" | grep -A45 '^HARNESS-ERROR' | grep -v '^  File "/venv' | tail -25 | cut -c1-300; fi
  done
done
