#!/usr/bin/env python3
"""Run the pinned baseline pytest command on a tree and compare with /root/.vp/BASELINE.json stable_pass.
Usage: baseline.py [repo_dir]   (exit 0 iff every stable_pass test passes)"""
import json, os, subprocess, sys, tempfile, xml.etree.ElementTree as ET
repo = sys.argv[1] if len(sys.argv) > 1 else "/repo"
base = json.load(open("/root/.vp/BASELINE.json"))
want = set(base["stable_pass"])
out = tempfile.mktemp(suffix=".xml")
env = dict(os.environ)
for k in ("FLOW_RECORD_VERIF", "PYTHONHASHSEED", "TZ"):
    env.pop(k, None)
if repo != "/repo":
    env["PYTHONPATH"] = repo
p = subprocess.run(["/venv/bin/python", "-m", "pytest", "-ra", "-q", "-p", "no:cacheprovider", "--timeout=900",
                    "--continue-on-collection-errors", "--junitxml=" + out], cwd=repo, env=env,
                   stdout=subprocess.PIPE, stderr=subprocess.STDOUT, text=True)
passed = set()
for tc in ET.parse(out).getroot().iter("testcase"):
    if not any(c.tag in ("failure", "error", "skipped") for c in tc):
        passed.add(tc.get("classname") + "::" + tc.get("name"))
os.unlink(out)
missing = sorted(want - passed)
print("passed=%d baseline=%d missing=%d" % (len(passed), len(want), len(missing)))
for m in missing[:40]:
    print("  MISSING", m)
if missing:
    print(p.stdout[-3000:])
sys.exit(1 if missing else 0)
