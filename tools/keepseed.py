#!/usr/bin/env python3
"""keepseed.py <ID> <slug> <caught-by (comma list or 'none')> <needs...>: copy a verified seeded change from
/tmp/seed-out/<ID> into /verif/seeded/<ID>-<slug>/ with meta.json."""
import json, os, shutil, sys
V = os.path.dirname(os.path.dirname(os.path.abspath(__file__)))
pid, slug, caught = sys.argv[1], sys.argv[2], sys.argv[3]
needs = " ".join(sys.argv[4:])
src = os.environ.get("SEED_SRC", "/tmp/seed-out") + "/%s" % pid
base = pid[:3]  # a tag such as C07a names the property C07
dst = os.path.join(V, "seeded", "%s-%s" % (base, slug))
os.makedirs(dst, exist_ok=True)
for f in os.listdir(src):
    if f.startswith(("patch", "demo", "notes")):
        shutil.copy(os.path.join(src, f), os.path.join(dst, f))
meta = {
    "property": base,
    "origin": "independent sub-agent given only the property text and a scratch worktree of /repo (HEAD incl. fix commits)",
    "needs_to_manifest": needs,
    "confirmed": {
        "patch_applies_to_scratch_copy_of_repo": True,
        "baseline_444_tests_pass_with_change": True,
        "demo_exit_without_change": 0,
        "demo_exit_with_change": 1,
        "how": "tools/seedcheck.sh %s <checks> (scratch copy under /tmp, removed afterwards)" % src,
    },
    "caught_by_quick_checks": [] if caught == "none" else caught.split(","),
}
json.dump(meta, open(os.path.join(dst, "meta.json"), "w"), indent=1)
print("kept", dst)
